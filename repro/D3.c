/* D3 (C02): an instrument whose note offset pushes the tone above ~12288 made OPN2::noteOn loop forever
 * (exp() overflows to +inf). build: gcc D3.c /repo/_build/libOPNMIDI.a -I/repo/include -lstdc++ -lm -o D3
 * defect present: the program never returns (run under `timeout 10`). */
#define OPNMIDI_UNSTABLE_API
#include <string.h>
#include <opnmidi.h>
int main(void)
{
    struct OPN2_MIDIPlayer *p = opn2_init(44100);
    OPN2_Bank bank; OPN2_BankId id = {0, 0, 0}; OPN2_Instrument ins;
    opn2_getBank(p, &id, OPNMIDI_Bank_Create, &bank);
    memset(&ins, 0, sizeof ins);
    ins.note_offset = 20000;
    ins.delay_on_ms = 1000; ins.delay_off_ms = 100;
    opn2_setInstrument(p, &bank, 0, &ins);
    opn2_rt_noteOn(p, 0, 60, 100);
    opn2_close(p);
    return 0;
}
