/* D22 (C13): U16 / S16 samples in a 32-bit container are copied raw: no +32768 offset, no saturation.
 * build: gcc D22.c /repo/_build/libOPNMIDI.a -I/repo/include -lstdc++ -lm -o D22 */
#include <stdio.h>
#include <stdint.h>
#include <opnmidi.h>
int main(void)
{
    struct OPN2_MIDIPlayer *p = opn2_init(44100);
    int32_t buf[64];
    uint16_t b16[64];
    struct OPNMIDI_AudioFormat f32c = { OPNMIDI_SampleType_U16, 4, 8 };
    struct OPNMIDI_AudioFormat f16c = { OPNMIDI_SampleType_U16, 2, 4 };
    opn2_switchEmulator(p, OPNMIDI_EMU_MAME);
    opn2_generateFormat(p, 64, (OPN2_UInt8 *)buf, (OPN2_UInt8 *)(buf + 1), &f32c);
    opn2_generateFormat(p, 64, (OPN2_UInt8 *)b16, (OPN2_UInt8 *)(b16 + 1), &f16c);
    printf("U16 silence in 16-bit container: %u, in 32-bit container: %d\n", b16[10], buf[10]);
    opn2_close(p);
    return b16[10] == (uint16_t)buf[10] ? 0 : 1;
}
