// D26: releasing sostenuto while the caught key is still down keyed the note off.
// g++ -fno-access-control -DENABLE_END_SILENCE_SKIPPING -DOPNMIDI_MIDI2VGM D26.cpp /repo/_build/libOPNMIDI.a -I/repo/include -I/repo/src -lm
// exit 0 = correct (note still owns a keyed-on channel), 1 = defect
#include <stdio.h>
#include "opnmidi.h"
#include "opnmidi_midiplay.hpp"
static unsigned users_total(OPNMIDIplay *p) { unsigned n = 0; for(size_t c = 0; c < p->m_chipChannels.size(); c++) n += (unsigned)p->m_chipChannels[c].users.size(); return n; }
int main(int argc, char **argv)
{
    OPN2_MIDIPlayer *dev = opn2_init(44100);
    if(!dev || opn2_openBankFile(dev, argc > 1 ? argv[1] : "/repo/fm_banks/gm.wopn") < 0) { printf("setup failed\n"); return 2; }
    OPNMIDIplay *p = reinterpret_cast<OPNMIDIplay *>(dev->opn2_midiPlayer);
    opn2_rt_noteOn(dev, 0, 60, 100);
    opn2_rt_controllerChange(dev, 0, 66, 127);   // sostenuto catches the held key
    opn2_rt_controllerChange(dev, 0, 66, 0);     // pedal released, the KEY IS STILL DOWN
    unsigned notes = (unsigned)p->m_midiChannels[0].activenotes.size(), users = users_total(p);
    printf("active notes=%u chip-channel users=%u\n", notes, users);
    int bad = !(notes == 1 && users == 1);
    opn2_rt_noteOff(dev, 0, 60);
    bad |= users_total(p) != 0;
    printf(bad ? "DEFECT: the held key lost its chip channel\n" : "ok\n");
    opn2_close(dev);
    return bad;
}
