/* D18 (C19): GM System On with trailing payload bytes was accepted (returned 1) and reset the synth.
 * build: gcc D18.c /repo/_build/libOPNMIDI.a -I/repo/include -lstdc++ -lm -o D18 ; exit 1 = defect present */
#include <stdio.h>
#include <opnmidi.h>
int main(void)
{
    struct OPN2_MIDIPlayer *p = opn2_init(44100);
    const OPN2_UInt8 msg[] = { 0xF0, 0x7E, 0x7F, 0x09, 0x01, 0x55, 0x66, 0xF7 };
    int r = opn2_rt_systemExclusive(p, msg, sizeof msg);
    printf("accepted=%d\n", r);
    opn2_close(p);
    return r ? 1 : 0;
}
