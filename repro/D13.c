/* D13 (C14): the Nuked core kept the YM2612/YM3438 mode in a process-wide static, so creating a second
 * instance with the other Nuked emulator changed the audio of the first one.
 * Build: cc -I/repo/include repro/D13.c /repo/_build/libOPNMIDI.a -lstdc++ -lm -o d13 && ./d13  (exit 0 = isolated) */
#include <stdio.h>
#include <string.h>
#include <opnmidi.h>
static unsigned long render(int interfere)
{
    struct OPN2_MIDIPlayer *a = opn2_init(44100), *b = 0;
    short buf[2048];
    unsigned long h = 1469598103934665603ul;
    int i, k;
    opn2_openBankFile(a, "/repo/fm_banks/fmmidi.wopn");
    opn2_switchEmulator(a, OPNMIDI_EMU_NUKED_YM2612);
    opn2_rt_noteOn(a, 0, 60, 100);
    for(k = 0; k < 20; k++)
    {
        if(interfere && k == 5)
        {   /* another instance, the other Nuked mode */
            b = opn2_init(44100);
            opn2_switchEmulator(b, OPNMIDI_EMU_NUKED_YM3438);
        }
        opn2_generate(a, 2048, buf);
        for(i = 0; i < 2048; i++) h = (h ^ (unsigned short)buf[i]) * 1099511628211ul;
    }
    if(b) opn2_close(b);
    opn2_close(a);
    return h;
}
int main(void)
{
    unsigned long h1 = render(0), h2 = render(1);
    printf("alone: %016lx  with another instance: %016lx  -> %s\n", h1, h2, h1 == h2 ? "identical" : "DIFFERENT");
    return h1 == h2 ? 0 : 1;
}
