/* D25 (C17): a DMX MUS system event (type 3) carries ONE data byte; Convert_mus2midi consumed two, so the
 * event after a system event was mis-parsed (here: the following "play note" disappears or the file is refused).
 * Build: cc -I/repo/include repro/D25.c /repo/_build/libOPNMIDI.a -lstdc++ -lm -o d25 && ./d25 */
#include <stdio.h>
#include <string.h>
#include <opnmidi.h>
static int note_ons;
static void raw(void *u, OPN2_UInt8 type, OPN2_UInt8 sub, OPN2_UInt8 ch, const OPN2_UInt8 *d, size_t n)
{ (void)u; (void)sub; (void)ch; if(type == 0x09 && n >= 2 && d[1] > 0) note_ons++; }
int main(void)
{
    /* header(14) | sys event ch0 ctrl 11 (all notes off) | play ch0 key 60 vol 100, last+delay 10 | release | END */
    unsigned char mus[] = { 'M','U','S',0x1A, 9,0, 14,0, 1,0, 0,0, 0,0,
                            0x30, 11,  0x90, 0x80|60, 100, 10,  0x00, 60,  0x60 };
    struct OPN2_MIDIPlayer *p = opn2_init(44100);
    short buf[512];
    int i, rc;
    opn2_openBankFile(p, "/repo/fm_banks/fmmidi.wopn");
    opn2_setRawEventHook(p, raw, 0);
    rc = opn2_openData(p, mus, sizeof mus);
    printf("openData rc=%d (%s)\n", rc, opn2_errorInfo(p));
    for(i = 0; rc == 0 && i < 50; i++) opn2_play(p, 512, buf);
    printf("note-on events delivered: %d (expected 1)\n", note_ons);
    opn2_close(p);
    return note_ons == 1 ? 0 : 1;
}
