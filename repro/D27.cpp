// D27: opn2_rt_resetState left pedal-held notes sounding (stuck).
// g++ -fno-access-control -DENABLE_END_SILENCE_SKIPPING -DOPNMIDI_MIDI2VGM D27.cpp /repo/_build/libOPNMIDI.a -I/repo/include -I/repo/src -lm
#include <stdio.h>
#include "opnmidi.h"
#include "opnmidi_midiplay.hpp"
static unsigned users_total(OPNMIDIplay *p) { unsigned n = 0; for(size_t c = 0; c < p->m_chipChannels.size(); c++) n += (unsigned)p->m_chipChannels[c].users.size(); return n; }
int main(int argc, char **argv)
{
    OPN2_MIDIPlayer *dev = opn2_init(44100);
    if(!dev || opn2_openBankFile(dev, argc > 1 ? argv[1] : "/repo/fm_banks/gm.wopn") < 0) { printf("setup failed\n"); return 2; }
    OPNMIDIplay *p = reinterpret_cast<OPNMIDIplay *>(dev->opn2_midiPlayer);
    opn2_rt_controllerChange(dev, 0, 64, 127);
    opn2_rt_noteOn(dev, 0, 60, 100);
    opn2_rt_noteOff(dev, 0, 60);                 // held by the pedal
    opn2_rt_resetState(dev);                     // resets the pedal: the held note must end
    unsigned users = users_total(p);
    printf("chip-channel users after reset=%u\n", users);
    printf(users ? "DEFECT: stuck note\n" : "ok\n");
    opn2_close(dev);
    return users != 0;
}
