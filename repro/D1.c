/* D1 (C03): real-time entry points accepted channel == 16 (guard used '>'): out-of-bounds access.
 * build with -fsanitize=address against an ASan build of the library, or observe the crash in a loop. */
#include <opnmidi.h>
int main(void)
{
    struct OPN2_MIDIPlayer *p = opn2_init(44100);
    int i;
    for(i = 0; i < 100000; i++) { opn2_rt_controllerChange(p, 16, 7, (OPN2_UInt8)i); opn2_rt_patchChange(p, 16, (OPN2_UInt8)i); }
    opn2_close(p);
    return 0;
}
