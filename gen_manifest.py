#!/usr/bin/env python3
"""Regenerates MANIFEST.json from the obligations registry (obligations/Cxx.py)
and the per-property texts in manifest_texts.json."""
import json, os, re, sys, importlib
V = os.path.dirname(os.path.abspath(__file__))
sys.path.insert(0, V)
texts = json.load(open(os.path.join(V, 'manifest_texts.json')))
props = [json.loads(l)['id'] for l in open(os.path.join(V, 'properties.jsonl'))]
checks = []
na = []
for p in props:
    t = texts.get(p, {})
    has = os.path.exists(os.path.join(V, 'obligations', p + '.py')) and not t.get('not_applicable')
    if not has:
        na.append({'property_id': p, 'reason': t.get('not_applicable', 'no solver-based check of this property has been built')})
        continue
    mod = importlib.import_module('obligations.' + p)
    checks.append({
        'property_id': p,
        'quick_cmd': 'python3 vf.py check %s --tier quick' % p,
        'thorough_cmd': 'python3 vf.py check %s --tier thorough' % p,
        'evidence_file': 'evidence/%s.json' % p,
        'replay_cmd_template': 'python3 vf.py replay {path}',
        'engine': t.get('engine', 'cbmc'),
        'level_claimed': {'category': 'model_checking', 'text': t['text'], 'design_ref': t.get('design_ref', 'DESIGN.md section 3 ' + p)},
        'level_note': getattr(mod, 'LEVEL_NOTE', '') or t.get('level_note', ''),
        'technique': t.get('technique', 'bounded model checking (CBMC, SAT/SMT) of the real code, symbolic inputs'),
    })
m = {
    'version': 1,
    'setup_cmd': 'python3 vf.py setup',
    'hooks': {'guard': 'OPNMIDI_VERIF', 'enable': 'none needed: harnesses reach private members with -fno-access-control / by #including the C sources; no source change in /repo is guarded',
              'baseline_off_cmd': 'ctest --test-dir /repo/_build -j8 --timeout 900', 'source_commits': [], 'add_only': True},
    'engines': [
        {'name': 'cbmc-c', 'path': 'lib/runner.py', 'serves_properties': [c['property_id'] for c in checks if texts[c['property_id']].get('engine', '').startswith('cbmc-c')],
         'kind_free_text': 'goto-cc + cbmc 6.11 on the repo\'s C translation units (#included by C harnesses)'},
        {'name': 'cbmc-ir', 'path': 'lib/ir2c.py', 'serves_properties': [c['property_id'] for c in checks if 'ir' in texts[c['property_id']].get('engine', '')],
         'kind_free_text': 'clang++-14 -emit-llvm of the repo\'s C++ units + harness -> llvm-link -> own LLVM-IR-to-C translator -> goto-cc -> cbmc'},
    ],
    'checks': checks,
    'not_applicable': na,
    'notes': 'All results are bounded: see each evidence file for unwindings, sizes, stubs and assumptions. DESIGN.md explains the method.',
}
json.dump(m, open(os.path.join(V, 'MANIFEST.json'), 'w'), indent=1)
print('checks:', [c['property_id'] for c in checks])
print('not_applicable:', [n['property_id'] for n in na])
