/* Common declarations for every harness (C and C++).
 *
 * Under goto-cc (the runner passes -DVERIF_CBMC) the nondet_* functions are left without a
 * body, so CBMC gives every call a fresh symbolic value, and the __CPROVER_*
 * primitives are the solver's.  In a native build (-DNATIVE_REPLAY) the same
 * harness source is linked against native_rt.c: nondet_* read the values of a
 * solver counterexample (or a pseudo-random vector) from a file, assume() ends
 * the run with exit code 77 when violated, and a failed assert prints
 * "VERIF-ASSERT-FAILED: <msg>" and aborts.
 */
#ifndef VERIF_H
#define VERIF_H

#ifdef __cplusplus
extern "C" {
#endif

unsigned char      nondet_uchar(void);
unsigned short     nondet_ushort(void);
unsigned int       nondet_uint(void);
unsigned long      nondet_ulong(void);
signed char        nondet_schar(void);
short              nondet_short(void);
int                nondet_int(void);
long               nondet_long(void);
double             nondet_double(void);
float              nondet_float(void);

#if defined(VERIF_CBMC) || defined(VERIF_IR)
/* solver side: for IR harnesses (compiled by clang, then translated) the
 * primitives are plain external functions that ir2c maps 1:1 onto CBMC's. */
#  if defined(VERIF_IR)
void __CPROVER_assume(int c);
void __CPROVER_assert(int c, const char *msg);
#  endif
#  define VASSUME(c)      __CPROVER_assume((c) ? 1 : 0)
#  define VASSERT(c, msg) __CPROVER_assert((c) ? 1 : 0, "PROP: " msg)
#else
void verif_native_assume(int c, const char *txt);
void verif_native_assert(int c, const char *msg);
#  define VASSUME(c)      verif_native_assume((c) ? 1 : 0, #c)
#  define VASSERT(c, msg) verif_native_assert((c) ? 1 : 0, "PROP: " msg)
#endif

/* Observation log for translator validation: harnesses call verif_observe() on
 * interesting intermediate values; natively the calls are printed, so that the
 * gcc build of the ir2c output and the g++ build of the original can be diffed.
 * Under CBMC it is a no-op. */
#if defined(VERIF_CBMC)
#  define verif_observe(tag, v) ((void)0)
#else
void verif_observe(const char *tag, long v);
#endif

/* Witness twin: compiled with -DWITNESS the final assert(0) must be reachable. */
#ifdef WITNESS
#  define VWITNESS() VASSERT(0, "WITNESS reachable")
#else
#  define VWITNESS() ((void)0)
#endif

#ifdef __cplusplus
}
#endif
#endif
