// C20 front-end kernels (the emulator cores themselves are not encodable, see DESIGN.md):
//   harness_ratio    : OPN2::reset / OPNChipBaseT::setRate / setupResampler -- every chip runs at the
//                      family's native clock and the resampling ratio matches rate/native within the
//                      property's pitch tolerance, for every output rate 8000..192000
//   harness_resample : one resampledGenerate step from an arbitrary resampler state: the sample counter
//                      invariant is kept, the native ticks consumed match the ratio, the output lies
//                      between the two neighbouring native samples (no overshoot)
// The resampler code is the real template OPNChipBaseT<MameOPN2> (TapChip instantiation).
#include "player.hpp"

#ifndef FAMILY
#define FAMILY 0     /* 0 = OPN2 (YM2612), 1 = OPNA (YM2608) */
#endif
#ifndef RATE
#define RATE 44100
#endif

extern "C" void harness_ratio(void)
{
    OPN2_MIDIPlayer *dev = opn2_init(44100);
    VASSUME(dev != NULL);
    OPNMIDIplay *p = player_of(dev);
    unsigned long rate = nondet_uint();
    VASSUME(rate >= 8000 && rate <= 192000);
    bool pcm = nondet_uchar() & 1;
    p->m_setup.PCM_RATE = rate;
    p->m_setup.chipType = FAMILY;
    p->m_setup.runAtPcmRate = pcm;
    p->applySetup();                       // the path of opn2_reset / opn2_setChipType / file loads

    const unsigned long clock = FAMILY ? 7987200ul : 7670454ul;     // YM2608 / YM2612 master clocks
    const unsigned long native = FAMILY ? 55466ul : 53267ul;
    VASSERT(opn2_getNativeClockRate((OPNFamily)FAMILY) == clock && opn2_getNativeRate((OPNFamily)FAMILY) == native, "native clock and rate of the family");
    VASSERT(native == clock / 144, "native rate = master clock / 144");
    VASSERT(p->m_synth->m_numChips == 2 && p->m_synth->m_chips.size() == 2, "two chips by default");
    for(unsigned i = 0; i < 2; i++)
    {
        MameOPN2 *chip = static_cast<MameOPN2 *>(p->m_synth->m_chips[i].get());
        VASSERT(chip->m_family == (OPNFamily)FAMILY, "chip is of the requested family");
        VASSERT(chip->m_rate == rate && chip->m_clock == clock, "chip runs at the requested output rate and the family's native clock");
        VASSERT(chip->isRunningAtPcmRate() == pcm, "run-at-PCM-rate flag is forwarded");
        // ratio = 1024 * rate / native up to truncation; pitch error = |ratio*native - 1024*rate| / (1024*rate)
        long ratio = chip->m_rateratio;
        VASSERT(ratio > 0, "ratio positive");
        long err = ratio * (long)native - 1024l * (long)rate;
        if(err < 0) err = -err;
        if(rate >= 22050)
            VASSERT(err * 200 <= 1024l * (long)rate, "resampling ratio within 0.5 % of rate/native (>= 22.05 kHz)");
        else
            VASSERT(err * 100 <= 1024l * (long)rate, "resampling ratio within 1 % of rate/native (< 22.05 kHz)");
    }
    VWITNESS();
}

extern "C" void harness_resample(void)
{
    OPN2_MIDIPlayer *dev = opn2_init(44100);
    VASSUME(dev != NULL);
    OPNMIDIplay *p = player_of(dev);
    p->m_setup.PCM_RATE = RATE;
    p->m_setup.chipType = FAMILY;
    p->applySetup();
    MameOPN2 *chip = static_cast<MameOPN2 *>(p->m_synth->m_chips[0].get());
    const int ratio = chip->m_rateratio;
    // arbitrary reachable resampler state
    int cnt = nondet_int();
    VASSUME(cnt >= 0 && cnt < ratio + 1024);
    chip->m_samplecnt = cnt;
    for(unsigned c = 0; c < 2; c++)
    {
        chip->m_oldsamples[c] = (short)nondet_ushort();
        chip->m_samples[c] = (short)nondet_ushort();
    }
    unsigned ticks0 = g_tap.native_ticks;
    int32_t out[2] = { 0, 0 };
    chip->generate32(out, 1);
    unsigned k = g_tap.native_ticks - ticks0;
    // invariant and tick accounting: cnt - k*ratio in [0, ratio)  and  new counter = that + 1024
    int rem = chip->m_samplecnt - 1024;
    VASSERT(rem >= 0 && rem < ratio, "after one output frame the counter is back below the ratio (+1024)");
    VASSERT(rem == cnt - (int)k * ratio, "native ticks consumed = floor(counter / ratio): long-run tick rate equals the ratio");
#ifdef CHECK_OVERSHOOT
    for(unsigned c = 0; c < 1; c++)
    {
        int a = chip->m_oldsamples[c], b = chip->m_samples[c];
        int lo = a < b ? a : b, hi = a < b ? b : a;
        VASSERT(out[c] >= lo && out[c] <= hi, "output lies between the two neighbouring native samples (no overshoot, idle level preserved)");
    }
#endif
    VWITNESS();
}
