// State forging helpers for player harnesses (private members reached with -fno-access-control).
#ifndef VERIF_FORGE_HPP
#define VERIF_FORGE_HPP
#include "player.hpp"

typedef OPN2::BankMap::Slot BankSlot;

// Link one bank with the given key into the synth's bank map WITHOUT going through
// opn2_getBank(Create): that path value-initialises and copies 10 KiB structs by value, the bulk
// write pattern that stalls CBMC.  The slot is raw heap memory: for the solver all 128 instruments
// are arbitrary (unwritten heap bytes are nondeterministic); in a native replay build they are
// filled with a deterministic pseudo-random pattern unless a harness pins entries explicitly.
static OPN2::Bank *forge_bank(OPNMIDIplay *p, size_t key)
{
    OPN2::BankMap &m = p->m_synth->m_insBanks;
    BankSlot *s = (BankSlot *)malloc(sizeof(BankSlot));
    VASSUME(s != NULL);
#ifdef NATIVE_REPLAY
    {
        unsigned char *b = (unsigned char *)s;
        unsigned x = 12345u + (unsigned)key;
        for(size_t i = 0; i < sizeof(BankSlot); i++) { x = x * 1103515245u + 12345u; b[i] = (unsigned char)(x >> 16); }
    }
#endif
    size_t idx = OPN2::BankMap::hash(key);
    s->prev = NULL;
    s->next = m.m_buckets[idx];
    if(s->next)
        s->next->prev = s;
    s->value.first = key;
    m.m_buckets[idx] = s;
    m.m_size++;
    return &s->value.second;
}

// make instrument `idx` of a forged bank an explicit list of nondet bytes (replayable natively)
static void pin_instrument(OPN2::Bank *bank, unsigned idx)
{
    unsigned char *b = (unsigned char *)&bank->ins[idx];
    for(unsigned i = 0; i < sizeof(OpnInstMeta); i++)
        b[i] = nondet_uchar();
}
#endif
