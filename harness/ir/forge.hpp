// State forging helpers for player harnesses (private members reached with -fno-access-control).
#ifndef VERIF_FORGE_HPP
#define VERIF_FORGE_HPP
#include "player.hpp"

typedef OPN2::BankMap::Slot BankSlot;

// Link one bank with the given key into the synth's bank map WITHOUT going through
// opn2_getBank(Create): that path value-initialises and copies 10 KiB structs by value, the bulk
// write pattern that stalls CBMC.  The slot is raw heap memory: for the solver all 128 instruments
// are arbitrary (unwritten heap bytes are nondeterministic); in a native replay build they are
// filled with a deterministic pseudo-random pattern unless a harness pins entries explicitly.
__attribute__((noinline)) static OPN2::Bank *forge_bank(OPNMIDIplay *p, size_t key)
{
    OPN2::BankMap &m = p->m_synth->m_insBanks;
    BankSlot *s = (BankSlot *)malloc(sizeof(BankSlot));
    VASSUME(s != NULL);
#ifdef NATIVE_REPLAY
    {
        unsigned char *b = (unsigned char *)s;
        unsigned x = 12345u + (unsigned)key;
        for(size_t i = 0; i < sizeof(BankSlot); i++) { x = x * 1103515245u + 12345u; b[i] = (unsigned char)(x >> 16); }
    }
#endif
    size_t idx = OPN2::BankMap::hash(key);
    s->prev = NULL;
    s->next = m.m_buckets[idx];
    if(s->next)
        s->next->prev = s;
    s->value.first = key;
    m.m_buckets[idx] = s;
    m.m_size++;
    return &s->value.second;
}

// Representation invariant of every bank entry the library can create (cvt_generic_to_FMIns is
// the only producer besides the zero-filled blank): the second voice is a copy of the first.
// Harnesses assume it for the entries a call can select (idx may be symbolic).
static void assume_single_voice(OPN2::Bank *bank, unsigned idx)
{
    OpnInstMeta &m = bank->ins[idx];
#ifdef NATIVE_REPLAY
    m.op[1] = m.op[0];
    m.voice2_fine_tune = 0.0;
#else
    for(unsigned o = 0; o < 4; o++)
        for(unsigned d = 0; d < 7; d++)
            VASSUME(m.op[1].OPS[o].data[d] == m.op[0].OPS[o].data[d]);
    VASSUME(m.op[1].fbalg == m.op[0].fbalg && m.op[1].lfosens == m.op[0].lfosens && m.op[1].noteOffset == m.op[0].noteOffset);
    VASSUME(m.voice2_fine_tune == 0.0);
#endif
}

// Pin entry `idx`: the timbre (operator registers, feedback/algorithm, LFO sensitivity, note
// offset) is CONCRETE and identical for both voices, so that the library's `voices[0] == voices[1]`
// test (a memcmp) is decided during symbolic execution -- with symbolic but equal bytes CBMC
// explores the two-voice allocation too and merges a symbolic chip channel index into the state.
// The instrument's meta data (blank flag, drum key, velocity offset, key-on/off times) stay symbolic.
// Arbitrary timbre bytes are covered by the kernel harnesses on OPN2::noteOn/touchNote/setPatch.
__attribute__((noinline)) static void pin_instrument(OPN2::Bank *bank, unsigned idx, unsigned seed, int noteOffset)
{
    OpnInstMeta &m = bank->ins[idx];
    for(unsigned o = 0; o < 4; o++)
        for(unsigned d = 0; d < 7; d++)
            m.op[0].OPS[o].data[d] = (unsigned char)((seed * 37u + o * 11u + d * 5u) & 0x7F);
    m.op[0].fbalg = (unsigned char)(seed & 0x3F);
    m.op[0].lfosens = (unsigned char)((seed >> 1) & 0x37);
    m.op[0].noteOffset = (int16_t)noteOffset;
    m.op[1] = m.op[0];
    m.voice2_fine_tune = 0.0;
    m.flags = nondet_uchar();
    m.drumTone = nondet_uchar();
    m.midiVelocityOffset = (int8_t)nondet_uchar();
    m.soundKeyOnMs = nondet_ushort();
    m.soundKeyOffMs = nondet_ushort();
}


#endif
