#include "player.hpp"
#include "forge.hpp"
extern "C" void harness_p(void)
{
    OPN2_MIDIPlayer *dev = opn2_init(44100);
    VASSUME(dev != NULL);
    OPNMIDIplay *p = player_of(dev);
    OPN2::Bank *b = forge_bank(p, 0);
#ifdef PIN_ALL
    memset(&b->ins[0], 0, sizeof(OpnInstMeta));
#endif
#ifdef PIN_FLAGS
    b->ins[0].flags = 0;
#endif
#ifdef PIN_MORE
    b->ins[0].drumTone = 0; b->ins[0].midiVelocityOffset = 0; b->ins[0].soundKeyOnMs = 100; b->ins[0].soundKeyOffMs = 100;
#endif
    unsigned char note = nondet_uchar(), vel = nondet_uchar();
#ifdef CONC_NOTE
    note = 60;
#endif
    opn2_rt_noteOn(dev, 0, note, vel);
    VWITNESS();
}
