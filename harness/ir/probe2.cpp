#include "player.hpp"
#include "forge.hpp"
extern "C" void harness_p(void)
{
    OPN2_MIDIPlayer *dev = opn2_init(44100);
    VASSUME(dev != NULL);
    OPNMIDIplay *p = player_of(dev);
    OPN2::Bank *b = forge_bank(p, 0);
    memset(&b->ins[0], 0, sizeof(OpnInstMeta));
    OPNMIDIplay::MIDIchannel::NoteInfo::Phys v = {0, b->ins[0].op[0]};
    int32_t c = -1, bs = -0x7FFFFFFFl;
    for(size_t a = 0; a < (size_t)p->m_synth->m_numChannels; ++a)
    {
        int64_t s = p->calculateChipChannelGoodness(a, v);
        if(s > bs) { bs = (int32_t)s; c = (int32_t)a; }
    }
    VASSERT(c == 0, "c is 0");
    p->prepareChipChannelForNewNote((size_t)c, v);
    OPNMIDIplay::MIDIchannel::notes_iterator ir = p->m_midiChannels[0].ensure_find_or_create_activenote(60);
    OPNMIDIplay::MIDIchannel::NoteInfo &ni = ir->value;
    ni.chip_channels_count = 0;
    ni.phys_ensure_find_or_create((uint16_t)c)->assign(v);
    VASSERT(ni.chip_channels[0].chip_chan == 0, "chan 0");
#ifdef STAGE2
    OPNMIDIplay::OpnChannel::Location loc; loc.MidCh = 0; loc.note = 60;
    OPNMIDIplay::OpnChannel::users_iterator ci = p->m_chipChannels[ni.chip_channels[0].chip_chan].find_or_create_user(loc);
    VASSERT(!ci.is_end(), "created");
#endif
#ifdef STAGE3
    ci->value.sustained = 0; ci->value.vibdelay_us = 0; ci->value.kon_time_until_neglible_us = 1000; ci->value.ins = ni.chip_channels[0];
#endif
#ifdef STAGE4
    ni.vol = nondet_uchar(); ni.vibrato = 0; ni.noteTone = 60; ni.currentTone = 60; ni.glideRate = HUGE_VAL; ni.midiins = 0;
    ni.isPercussion = false; ni.isBlank = false; ni.isOnExtendedLifeTime = false; ni.ttl = 0; ni.ains = &b->ins[0];
    p->noteUpdate(0, ir, STAGE4);
#endif
    VWITNESS();
}
