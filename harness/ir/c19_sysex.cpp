// C19: only well-formed, correctly addressed SysEx messages take effect.
// Real opn2_init + opn2_setDeviceIdentifier + opn2_rt_systemExclusive; the message is an
// exact-size array of LEN symbolic bytes (one obligation per LEN), the prior state of a
// symbolic probe channel, the synth mode, the master volume and the device id are symbolic.
#include "player.hpp"

#ifndef LEN
#define LEN 8
#endif
#ifndef CH
#define CH 0
#endif

enum { K_REJECT = 0, K_DONTCARE, K_GM_ON, K_GM_OFF, K_MASTERVOL, K_GS_RESET, K_GS_DRUM, K_XG_ON };

// Reference written from the property text (and the MIDI/GS/XG message formats it names)
static int classify(const unsigned char *m, unsigned len, unsigned id)
{
    if(len < 4 || m[0] != 0xF0 || m[len - 1] != 0xF7)
        return K_REJECT;
    // a data byte with the high bit set is not a well-formed SysEx body: neither outcome is demanded
    for(unsigned i = 1; i + 1 < len; i++)
        if(m[i] & 0x80)
            return K_DONTCARE;
    unsigned man = m[1], dev = m[2];
    if(man == 0x7E || man == 0x7F)
    {
        bool addressed = (dev == id) || (dev == 0x7F);
        if(!addressed)
            return K_REJECT;
        if(man == 0x7E && len == 6 && m[3] == 0x09 && m[4] == 0x01) return K_GM_ON;
        if(man == 0x7E && len == 6 && m[3] == 0x09 && m[4] == 0x02) return K_GM_OFF;
        if(man == 0x7F && len == 8 && m[3] == 0x04 && m[4] == 0x01) return K_MASTERVOL;
        return K_REJECT;
    }
    if(man == 0x41)
    {
        if(dev == 0x7F)
            return K_DONTCARE; // broadcast to a Roland device: the property leaves it open
        if(dev != (0x10 | id))
            return K_REJECT;
        if(len != 11 || m[3] != 0x42 || m[4] != 0x12)
            return K_REJECT;
        unsigned sum = (m[5] + m[6] + m[7] + m[8]) & 0x7F;
        unsigned chk = (128 - sum) & 0x7F;
        if(m[9] != chk)
            return K_REJECT;
        if(m[5] == 0x40 && m[6] == 0x00 && m[7] == 0x7F) return K_GS_RESET;
        if(m[5] == 0x00 && m[6] == 0x00 && m[7] == 0x7F) return K_GS_RESET;
        if(m[5] == 0x40 && (m[6] & 0xF0) == 0x10 && m[7] == 0x15) return K_GS_DRUM;
        return K_REJECT;
    }
    if(man == 0x43)
    {
        if(dev == 0x7F)
            return K_DONTCARE;
        if(dev != (0x10 | id))
            return K_REJECT;
        if(len == 9 && m[3] == 0x4C && m[4] == 0x00 && m[5] == 0x00 && m[6] == 0x7E) return K_XG_ON;
        return K_REJECT;
    }
    return K_REJECT;
}

struct Snap
{
    unsigned mode; unsigned char master;
    unsigned char volume, expression, panning, bank_lsb, bank_msb, patch, vibrato, aftertouch, brightness, lastlrpn, lastmrpn;
    bool sustain, softPedal, nrpn, is_xg_percussion;
    int bend, bendsense_msb, bendsense_lsb;
    unsigned writes;
};

static void take(Snap &s, OPNMIDIplay *p, unsigned c)
{
    OPNMIDIplay::MIDIchannel &ch = p->m_midiChannels[c];
    s.mode = p->m_synthMode; s.master = p->m_synth->m_masterVolume;
    s.volume = ch.volume; s.expression = ch.expression; s.panning = ch.panning; s.bank_lsb = ch.bank_lsb;
    s.bank_msb = ch.bank_msb; s.patch = ch.patch; s.vibrato = ch.vibrato; s.aftertouch = ch.aftertouch;
    s.brightness = ch.brightness; s.lastlrpn = ch.lastlrpn; s.lastmrpn = ch.lastmrpn; s.sustain = ch.sustain;
    s.softPedal = ch.softPedal; s.nrpn = ch.nrpn; s.is_xg_percussion = ch.is_xg_percussion; s.bend = ch.bend;
    s.bendsense_msb = ch.bendsense_msb; s.bendsense_lsb = ch.bendsense_lsb; s.writes = g_tap.writes;
}

static bool same(const Snap &a, const Snap &b, bool except_drumflag, bool except_master)
{
    return a.mode == b.mode && (except_master || a.master == b.master) && a.volume == b.volume &&
           a.expression == b.expression && a.panning == b.panning && a.bank_lsb == b.bank_lsb && a.bank_msb == b.bank_msb &&
           a.patch == b.patch && a.vibrato == b.vibrato && a.aftertouch == b.aftertouch && a.brightness == b.brightness &&
           a.lastlrpn == b.lastlrpn && a.lastmrpn == b.lastmrpn && a.sustain == b.sustain && a.softPedal == b.softPedal &&
           a.nrpn == b.nrpn && (except_drumflag || a.is_xg_percussion == b.is_xg_percussion) && a.bend == b.bend &&
           a.bendsense_msb == b.bendsense_msb && a.bendsense_lsb == b.bendsense_lsb;
}

extern "C" void harness_sysex(void)
{
    OPN2_MIDIPlayer *dev = opn2_init(44100);
    VASSUME(dev != NULL);
    OPNMIDIplay *p = player_of(dev);

    unsigned id = nondet_uchar();
    VASSUME(id <= 15);
    VASSERT(opn2_setDeviceIdentifier(dev, id) == 0, "device ids 0..15 are accepted");

    unsigned modesel = nondet_uchar();
    VASSUME(modesel <= 3);
    p->m_synthMode = modesel == 0 ? OPNMIDIplay::Mode_GM : modesel == 1 ? OPNMIDIplay::Mode_GS :
                     modesel == 2 ? OPNMIDIplay::Mode_XG : OPNMIDIplay::Mode_GM2;
    p->m_synth->m_masterVolume = nondet_uchar() & 0x7F;

    // the probe channel is concrete per obligation: a symbolic index into the array of 1.2 KiB
    // MIDIchannel structs makes every later access a 16-way case split over the whole array
    const unsigned c = CH;
    {
        OPNMIDIplay::MIDIchannel &ch = p->m_midiChannels[c];
        ch.volume = nondet_uchar(); ch.expression = nondet_uchar(); ch.panning = nondet_uchar();
        ch.bank_lsb = nondet_uchar(); ch.bank_msb = nondet_uchar(); ch.patch = nondet_uchar();
        ch.vibrato = nondet_uchar(); ch.aftertouch = nondet_uchar(); ch.brightness = nondet_uchar();
        ch.lastlrpn = nondet_uchar(); ch.lastmrpn = nondet_uchar();
        ch.sustain = nondet_uchar() & 1; ch.softPedal = nondet_uchar() & 1; ch.nrpn = nondet_uchar() & 1;
        ch.is_xg_percussion = nondet_uchar() & 1;
        ch.bend = (int)nondet_ushort() - 8192;
        ch.bendsense_msb = nondet_uchar() & 0x7F; ch.bendsense_lsb = nondet_uchar() & 0x7F;
    }

    unsigned char msg[LEN + 1]; // LEN == 0 needs a non-empty array type; only LEN bytes are passed
    for(unsigned i = 0; i < LEN; i++)
        msg[i] = nondet_uchar();
#if LEN > 0
    unsigned char exact[LEN];
    for(unsigned i = 0; i < LEN; i++)
        exact[i] = msg[i];
    const unsigned char *m = exact;   // exact-size object: any read past LEN is a bounds failure
#else
    const unsigned char *m = msg;
#endif

    Snap before, after;
    take(before, p, c);
    int kind = classify(msg, LEN, id);

    int r = opn2_rt_systemExclusive(dev, m, LEN);

    take(after, p, c);
    VASSERT(r == 0 || r == 1, "returns 0 or 1");
    if(kind == K_REJECT)
        VASSERT(r == 0, "every byte string that is not one of the recognised, correctly addressed messages is rejected");
    if(kind >= K_GM_ON)
        VASSERT(r == 1, "recognised, correctly addressed message is accepted");
    if(r == 0)
    {
        VASSERT(same(before, after, false, false), "rejected message leaves mode, master volume and controllers untouched");
        VASSERT(after.writes == before.writes, "rejected message writes nothing to the chips");
    }
    else
    {
        if(kind == K_MASTERVOL)
        {
            VASSERT(after.master == (msg[6] & 0x7F), "master volume = 14-bit value >> 7");
            VASSERT(same(before, after, false, true), "master volume message changes nothing else");
        }
        else if(kind == K_GS_DRUM)
        {
            static const unsigned char map[16] = { 9, 0, 1, 2, 3, 4, 5, 6, 7, 8, 10, 11, 12, 13, 14, 15 };
            unsigned target = map[msg[6] & 0x0F];
            bool want = msg[8] == 1 || msg[8] == 2;
            VASSERT(p->m_midiChannels[target].is_xg_percussion == want, "GS drum-part flag set on the addressed part");
            VASSERT(same(before, after, c == target, false), "drum-part message changes nothing else");
        }
        else if(kind == K_GM_ON || kind == K_GM_OFF || kind == K_GS_RESET || kind == K_XG_ON)
        {
            if(kind == K_GM_ON) VASSERT(after.mode == OPNMIDIplay::Mode_GM, "GM on selects GM mode");
            if(kind == K_GS_RESET) VASSERT(after.mode == OPNMIDIplay::Mode_GS, "GS reset selects GS mode");
            if(kind == K_XG_ON) VASSERT(after.mode == OPNMIDIplay::Mode_XG, "XG on selects XG mode");
            VASSERT(after.volume == 100 && after.expression == 127 && after.panning == 64 && after.brightness == 127 &&
                    after.bend == 0 && !after.sustain && !after.softPedal && after.vibrato == 0 && after.aftertouch == 0 &&
                    after.lastlrpn == 0 && after.lastmrpn == 0 && !after.nrpn && after.bendsense_msb == 2 &&
                    after.bendsense_lsb == 0, "mode switch resets the controllers");
            VASSERT(after.master == 127, "mode switch resets the master volume");
        }
    }
    VWITNESS();
}
