// C19: only well-formed, correctly addressed SysEx messages take effect.
#include "player.hpp"

#ifndef LEN
#define LEN 8
#endif

extern "C" void harness_sysex(void)
{
    OPN2_MIDIPlayer *dev = opn2_init(44100);
    VASSUME(dev != NULL);
    OPNMIDIplay *p = player_of(dev);
    unsigned char msg[LEN + 1];
    for(unsigned i = 0; i < LEN; i++)
        msg[i] = nondet_uchar();
    int r = opn2_rt_systemExclusive(dev, msg, LEN);
    VASSERT(r == 0 || r == 1, "returns 0/1");
    VWITNESS();
}
