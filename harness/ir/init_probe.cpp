#include "player.hpp"
extern "C" void harness_init(void)
{
    OPN2_MIDIPlayer *dev = opn2_init(44100);
    VASSUME(dev != NULL);
    OPNMIDIplay *p = player_of(dev);
    OPNMIDIplay::OpnChannel::Location loc; loc.MidCh = 0; loc.note = 60;
    VASSERT(p->m_chipChannels[0].find_user(loc).is_end(), "find on empty");
    VASSERT(p->m_chipChannels[3].users.empty(), "empty");
    for(unsigned a = 0; a < p->m_synth->m_numChannels; a++)
        VASSERT(p->m_chipChannels[a].koff_time_until_neglible_us == 0, "koff 0");
    VWITNESS();
}
