// Probe: is the state after the real opn2_init() concrete for the solver?
#include "player.hpp"
extern "C" void harness_init(void)
{
    OPN2_MIDIPlayer *dev = opn2_init(44100);
    VASSUME(dev != NULL);
    OPNMIDIplay *p = player_of(dev);
    VASSERT(p->hooks.onDebugMessage == NULL, "debug hook null");
    VASSERT(p->m_midiChannels.size() == 16, "16 channels");
    VASSERT(p->m_chipChannels.size() == 12, "12 chip channels");
    VASSERT(p->m_midiChannels[3].activenotes.empty(), "no notes");
    VASSERT(p->m_synth->m_numChannels == 12, "numChannels");
    VASSERT(g_tap.keyed[1][2] == 0, "not keyed");
    VWITNESS();
}
