// C12: bank select + program change pick the documented instrument, with fallbacks.
// Real player, real opn2_rt_bankChange / patchChange / noteOn; banks are forged map slots whose probed
// entries carry a tag in the feedback/algorithm byte (concrete timbres, see forge.hpp); the tag that
// reaches the chip (register 0xB0 of the allocated channel) is compared with a reference resolution
// written from the property text.  Bank numbers, blank patterns and modes are enumerated on separate
// call sites (a symbolic choice would make the instrument pointer an if-then-else and fork the
// two-voice allocation); key and velocity are symbolic.
#include "player.hpp"
#include "forge.hpp"

#ifndef MODE
#define MODE 2        /* OPNMIDIplay::Mode_GM 0, Mode_GS 1, Mode_XG 2 */
#endif
#define PROG 7

enum { T_EXACT = 0x11, T_LSB0 = 0x12, T_BANK0 = 0x13, T_PERC = 0x21, T_PERC_KIT = 0x22, T_SFX = 0x23 };

static OPN2_MIDIPlayer *g_dev;
static OPNMIDIplay *g_p;

static void tag_entry(OPN2::Bank *b, unsigned idx, unsigned tag, bool blank, unsigned drumKey)
{
    pin_instrument(b, idx, tag, 0);
    b->ins[idx].op[0].fbalg = (unsigned char)tag;
    b->ins[idx].op[1] = b->ins[idx].op[0];
    b->ins[idx].flags = blank ? OpnInstMeta::Flag_NoSound : 0;
    b->ins[idx].drumTone = (unsigned char)drumKey;
    b->ins[idx].midiVelocityOffset = 0;
}

// ---- melodic: banks (1,2) "exact", (1,0) "lsb cleared", (0,0) "bank 0"; the channel selects (msb,lsb)
__attribute__((optnone, noinline)) static void melodic_case(unsigned msb, unsigned lsb, bool blankExact, bool blankLsb0, bool blank0)
{
    // the symbolic inputs the assertions depend on are read first: the values of a sliced counterexample trace stay aligned in the replay
    // (tag_entry reads further nondet values, most of which it overwrites and which the slicer therefore drops from the trace)
    unsigned char key = nondet_uchar(), vel = nondet_uchar();
    VASSUME(key <= 127 && vel >= 1 && vel <= 127);
    g_dev = opn2_init(44100);
    VASSUME(g_dev != NULL);
    g_p = player_of(g_dev);
    g_p->m_synthMode = MODE;
    tag_entry(forge_bank(g_p, 0x0102), PROG, T_EXACT, blankExact, 0);
    tag_entry(forge_bank(g_p, 0x0100), PROG, T_LSB0, blankLsb0, 0);
    tag_entry(forge_bank(g_p, 0x0000), PROG, T_BANK0, blank0, 0);
    opn2_rt_bankChange(g_dev, 0, (OPN2_SInt16)((msb << 8) | lsb));
    opn2_rt_patchChange(g_dev, 0, PROG);
    unsigned w0 = g_tap.writes;
    int r = opn2_rt_noteOn(g_dev, 0, key, vel);

    // reference resolution (property text)
    unsigned lsb_eff = (MODE == 1) ? 0 : lsb;                 // GS ignores the LSB
    int want = -1;
    bool haveExact = (msb == 1 && lsb_eff == 2), haveLsb0 = (msb == 1);
    if(msb == 0 && lsb_eff == 0) { if(!blank0) want = T_BANK0; }
    else
    {
        if(haveExact && !blankExact) want = T_EXACT;
        else if(haveLsb0 && !blankLsb0) want = T_LSB0;
        else if(!blank0) want = T_BANK0;
    }
    if(want < 0)
    {
        VASSERT(r == 0, "all candidate entries blank or missing: the note is rejected");
        VASSERT(g_tap.keyons == 0, "a rejected note keys nothing on");
    }
    else
    {
        VASSERT(r == 1, "a non-blank instrument is found: the note is accepted");
        VASSERT(g_tap.reg[0][0][0xB0] == (unsigned)want, "the instrument loaded into the chip is the documented one (exact bank, else LSB cleared, else bank 0)");
        VASSERT(g_tap.keyed[0][0] == 1, "the note is keyed on");
    }
    (void)w0;
}

extern "C" __attribute__((optnone, noinline)) void harness_melodic(void)
{
#if defined(SEL) && defined(BL)
    unsigned sel = SEL, bl = BL;                      // bank pair AND blank pattern fixed per obligation (one scenario per solver run)
#elif defined(SEL)
    unsigned sel = SEL, bl = nondet_uchar() % 8;      // bank pair fixed per obligation (memory)
#else
    unsigned sel = nondet_uchar() % 5, bl = nondet_uchar() % 8;
#endif
    bool b1 = bl & 1, b2 = bl & 2, b3 = bl & 4;
    // (blank patterns are passed as run-time booleans into an optnone callee: the callee's stores are then
    //  constants per call site as well)
#define CASES(M, L) switch(bl) { case 0: melodic_case(M, L, false, false, false); break; case 1: melodic_case(M, L, true, false, false); break; \
        case 2: melodic_case(M, L, false, true, false); break; case 3: melodic_case(M, L, true, true, false); break; \
        case 4: melodic_case(M, L, false, false, true); break; case 5: melodic_case(M, L, true, false, true); break; \
        case 6: melodic_case(M, L, false, true, true); break; default: melodic_case(M, L, true, true, true); break; }
    switch(sel)
    {
    case 0: CASES(0, 0) break;
    case 1: CASES(1, 2) break;
    case 2: CASES(1, 0) break;
    case 3: CASES(1, 3) break;      // exact bank missing -> LSB cleared
    default: CASES(2, 5) break;     // both missing -> bank 0
    }
    (void)b1; (void)b2; (void)b3;
    VWITNESS();
}

// ---- percussion: channel 9; the program selects the kit, the key selects the entry, the drum key fixes the pitch
__attribute__((optnone, noinline)) static void perc_case(unsigned program, unsigned msb, bool kitBlank, bool kit0Blank)
{
    unsigned char vel = nondet_uchar();            // read first (replay alignment, see melodic_case)
    VASSUME(vel >= 1 && vel <= 127);
    g_dev = opn2_init(44100);
    VASSUME(g_dev != NULL);
    g_p = player_of(g_dev);
    g_p->m_synthMode = MODE;
    const unsigned KEY = 38;
    tag_entry(forge_bank(g_p, OPN2::PercussionTag | 0), KEY, T_PERC, kit0Blank, 60);
    tag_entry(forge_bank(g_p, OPN2::PercussionTag | 5), KEY, T_PERC_KIT, kitBlank, 61);
    tag_entry(forge_bank(g_p, OPN2::PercussionTag | (128 + 5)), KEY, T_SFX, kitBlank, 62);
    tag_entry(forge_bank(g_p, 0x0000), KEY, T_BANK0, false, 0);           // a melodic bank must never be used here
    opn2_rt_bankChange(g_dev, 9, (OPN2_SInt16)(msb << 8));
    opn2_rt_patchChange(g_dev, 9, (OPN2_UInt8)program);
    int r = opn2_rt_noteOn(g_dev, 9, KEY, vel);
    int want;
    bool sfx = (MODE == 2) && msb == 0x7E;                               // XG SFX kits live 128 banks up
    if(program == 5) want = kitBlank ? (kit0Blank ? -1 : T_PERC) : (sfx ? T_SFX : T_PERC_KIT);
    else want = kit0Blank ? -1 : T_PERC;                                 // program 0 (or a missing kit) -> kit 0
    if(want < 0)
        VASSERT(r == 0 && g_tap.keyons == 0, "all candidate drum entries blank: rejected and silent");
    else
    {
        VASSERT(r == 1, "drum note accepted");
        VASSERT(g_tap.reg[0][0][0xB0] == (unsigned)want, "percussion: the program selects the kit (SFX kits offset by 128 in XG mode), the key selects the entry");
        VASSERT(g_tap.reg[0][0][0xB0] != T_BANK0, "a melodic bank is never used on a percussion channel");
    }
}

extern "C" __attribute__((optnone, noinline)) void harness_perc(void)
{
#if defined(PCASE)
    unsigned sel = PCASE;                             // one case per obligation (one scenario per solver run)
#elif defined(SEL)
    unsigned sel = SEL * 4 + nondet_uchar() % 4;      // four cases per obligation
#else
    unsigned sel = nondet_uchar() % 12;
#endif
    switch(sel)
    {
    case 0: perc_case(0, 0, false, false); break;
    case 1: perc_case(5, 0, false, false); break;
    case 2: perc_case(5, 0, true, false); break;
    case 3: perc_case(5, 0, true, true); break;
    case 4: perc_case(0, 0, false, true); break;
    case 5: perc_case(5, 0x7E, false, false); break;
    case 6: perc_case(5, 0x7F, false, false); break;
    case 7: perc_case(5, 0x7E, true, false); break;
    case 8: perc_case(3, 0, false, false); break;      // kit 3 does not exist -> kit 0
    case 9: perc_case(3, 0x7E, false, false); break;
    case 10: perc_case(0, 0x7E, false, false); break;
    default: perc_case(5, 0x7E, true, true); break;
    }
    VWITNESS();
}

// ---- a mode switch clears the XG drum-channel role: CC0 = 126/127 in XG (or GM) mode makes a melodic
// channel a percussion channel; after a GS reset the channel is melodic again (GS has no such rule)
extern "C" __attribute__((optnone, noinline)) void harness_gsreset(void)
{
    unsigned char vel = nondet_uchar(), cc0 = nondet_uchar();      // read first (replay alignment, see melodic_case)
    VASSUME(vel >= 1 && vel <= 127);
    g_dev = opn2_init(44100);
    VASSUME(g_dev != NULL);
    g_p = player_of(g_dev);
    g_p->m_synthMode = MODE;                       // XG (2) or GM (0)
    tag_entry(forge_bank(g_p, 0x0100), PROG, T_LSB0, false, 0);
    tag_entry(forge_bank(g_p, 0x0000), PROG, T_BANK0, false, 0);
    tag_entry(forge_bank(g_p, OPN2::PercussionTag | 0), 60, T_PERC, false, 60);
    tag_entry(forge_bank(g_p, OPN2::PercussionTag | PROG), 60, T_PERC_KIT, false, 60);
    static const unsigned char gs_reset[11] = { 0xF0, 0x41, 0x10, 0x42, 0x12, 0x40, 0x00, 0x7F, 0x00, 0x41, 0xF7 };
    if(cc0 & 1) opn2_rt_controllerChange(g_dev, 0, 0, 126); else opn2_rt_controllerChange(g_dev, 0, 0, 127);
    VASSERT(g_p->m_midiChannels[0].is_xg_percussion, "XG bank MSB 126/127 makes the channel a percussion channel");
    VASSERT(opn2_rt_systemExclusive(g_dev, gs_reset, sizeof gs_reset) == 1, "GS reset accepted");
    opn2_rt_bankChange(g_dev, 0, 0x0100);
    opn2_rt_patchChange(g_dev, 0, PROG);
    int r = opn2_rt_noteOn(g_dev, 0, 60, vel);
    VASSERT(r == 1, "note accepted");
    VASSERT(g_tap.reg[0][0][0xB0] == T_LSB0, "after the GS mode switch the channel plays the melodic instrument at (MSB, 0, program), not a drum kit entry");
    VWITNESS();
}
