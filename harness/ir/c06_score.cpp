// C06 kernels on the real OPNMIDIplay::calculateChipChannelGoodness (real player from opn2_init, users
// inserted through the real pl_list): the ordering of scores that makes the allocator prefer an idle
// channel over any occupied one and a released-but-pedal-held note over a note whose key is still down.
//   harness_order : channel A has one user held only by a pedal (sustain and/or sostenuto), channel B one
//                   user whose key is down, channel C is idle: score(C) > score(A) > score(B)
//   harness_pick  : the real note-on selection on that state puts the new note on the idle channel and
//                   leaves both old users in place (needs the pinned-instrument machinery)
#include "player.hpp"
#include "forge.hpp"

#ifndef ALLOC
#define ALLOC (-1)       /* OPNMIDI_ChanAlloc_AUTO, 0 OffDelay, 1 SameInst, 2 AnyReleased */
#endif

static void add_user(OPNMIDIplay *p, unsigned c, unsigned midCh, unsigned note, unsigned sustained, const OpnTimbre &t)
{
    OPNMIDIplay::OpnChannel::LocationData ld;
    memset(&ld, 0, sizeof ld);
    ld.loc.MidCh = (uint16_t)midCh;
    ld.loc.note = (uint8_t)note;
    ld.sustained = sustained;
    ld.ins.chip_chan = (uint16_t)c;
    ld.ins.ains = t;
    ld.fixed_sustain = nondet_uchar() & 1;
    // up to 10 simulated minutes of ageing: key-on time counts down from at most 65535 ms
    long kon = nondet_long();
    VASSUME(kon >= -600000000L && kon <= 65535000L);
    ld.kon_time_until_neglible_us = kon;
    long vd = nondet_long();
    VASSUME(vd >= 0 && vd <= 600000000L);
    ld.vibdelay_us = vd;
    p->m_chipChannels[c].users.push_back(ld);
}

extern "C" void harness_order(void)
{
    OPN2_MIDIPlayer *dev = opn2_init(44100);
    VASSUME(dev != NULL);
    OPNMIDIplay *p = player_of(dev);
    p->m_synth->m_channelAlloc = (OPNMIDI_ChannelAlloc)ALLOC;
    p->m_synth->m_musicMode = (nondet_uchar() & 1) ? OPN2::MODE_CMF : OPN2::MODE_MIDI;
    OpnTimbre t1, t2, tn;
    memset(&t1, 1, sizeof t1); memset(&t2, 2, sizeof t2); memset(&tn, 3, sizeof tn);
    unsigned held = nondet_uchar();
    VASSUME(held == OPNMIDIplay::OpnChannel::LocationData::Sustain_Pedal ||
            held == OPNMIDIplay::OpnChannel::LocationData::Sustain_Sostenuto ||
            held == OPNMIDIplay::OpnChannel::LocationData::Sustain_ANY);
    add_user(p, 0, 0, 60, held, t1);                                                     // A: released, pedal-held
    add_user(p, 1, 0, 62, OPNMIDIplay::OpnChannel::LocationData::Sustain_None, t2);      // B: key still down
    // C (channel 2): idle, possibly still releasing
    long koff = nondet_long();
    VASSUME(koff >= 0 && koff <= 65535000L);
    p->m_chipChannels[2].koff_time_until_neglible_us = koff;
    p->m_chipChannels[2].recent_ins.ains = (nondet_uchar() & 1) ? tn : t1;
    OPNMIDIplay::MIDIchannel::NoteInfo::Phys ins;
    ins.chip_chan = 0;
    ins.ains = tn;                                  // the new note's voice (same as C's recent voice or not)
    long sA = p->calculateChipChannelGoodness(0, ins);
    long sB = p->calculateChipChannelGoodness(1, ins);
    long sC = p->calculateChipChannelGoodness(2, ins);
    VASSERT(sC > sA && sC > sB, "an idle channel scores better than any occupied channel");
    VASSERT(sA > sB, "a channel whose only user is released but pedal-held scores better than one whose key is still down");
    VASSERT(sC >= -2147483647L && sA >= -2147483647L && sB >= -2147483647L, "scores survive the allocator's int32 truncation");
    VWITNESS();
}
