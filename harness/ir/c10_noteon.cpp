// Kernel harnesses on the real OPN2::noteOn (through the real player built by opn2_init):
//   harness_fnum  (C10): block/F-number written = coef * exp(k*tone) within +-0.5 F-number steps
//   harness_mono  (C10): frequency is monotone in the tone (2-safety, two calls)
//   harness_safe  (C02): every tone the API can produce, arbitrary timbre: indices in range, loops terminate
// exp() is the envelope stub of lib/ir2c.py (a function: same argument, same value; monotone).
#include "player.hpp"
#include <math.h>

#ifndef CHAN
#define CHAN 4
#endif
#ifndef TONE
#define TONE 60
#endif

// external linkage: clang must not fold exp(k*TONE) to a constant at compile time (the harness has to
// obtain the same stub value as the code under test); the solver still sees the concrete initialiser
double verif_tone = (double)(TONE);

static void sym_timbre(OpnTimbre &t)
{
    for(unsigned o = 0; o < 4; o++)
        for(unsigned d = 0; d < 7; d++)
            t.OPS[o].data[d] = nondet_uchar();
    t.fbalg = nondet_uchar();
    t.lfosens = nondet_uchar();
    t.noteOffset = (int16_t)nondet_ushort();
}

struct Seen { unsigned ftone; unsigned block, fnum; unsigned char mul[4]; unsigned keyon; };

static void read_tap(Seen &s, unsigned c)
{
    unsigned chip = c / 6, port = (c % 6) / 3, cc = c % 3;
    unsigned hi = g_tap.reg[chip][port][0xA4 + cc], lo = g_tap.reg[chip][port][0xA0 + cc];
    s.ftone = (hi << 8) | lo;
    s.block = (hi >> 3) & 7;
    s.fnum = ((hi & 7) << 8) | lo;
    for(unsigned op = 0; op < 4; op++)
        s.mul[op] = g_tap.reg[chip][port][0x30 + op * 4 + cc];
    s.keyon = g_tap.reg[chip][0][0x28];
}

static OPN2 *setup(OPN2_MIDIPlayer *&dev, OpnTimbre &t)
{
    dev = opn2_init(44100);
    VASSUME(dev != NULL);
    OPN2 *synth = player_of(dev)->m_synth.get();
#ifdef FAMILY_OPNA
    synth->m_chipFamily = OPNChip_OPNA;
#else
    synth->m_chipFamily = OPNChip_OPN2;
#endif
    sym_timbre(t);
    synth->m_insCache[CHAN] = t;
    return synth;
}

extern "C" void harness_fnum(void)
{
    OPN2_MIDIPlayer *dev; OpnTimbre t;
    OPN2 *synth = setup(dev, t);
    // The tone is CONCRETE per obligation (TONE): noteOn depends on it only through e = exp(k*tone), and
    // the exp stub returns every value of an enclosure that is many semitones wide, so a handful of tones
    // sweeps the whole frequency axis while k*tone constant-folds (a symbolic tone adds two 64-bit FP
    // multiplications and the queries no longer finish).
    double tone = verif_tone;
    double coef = synth->m_chipFamily == OPNChip_OPNA ? 309.12412 : 321.88557;
    double h0 = coef * exp(0.057762265 * tone);        // the value noteOn will see (memoised stub)
    VASSUME(h0 < 2036.75 * 128.0);                     // inside the chip's native range (no multiplier trick)
    unsigned writes0 = g_tap.writes;
    synth->noteOn(CHAN, tone);
    Seen s; read_tap(s, CHAN);
    VASSERT(g_tap.bad == 0, "every register write addresses an existing chip/port/register");
    VASSERT(g_tap.writes == writes0 + 7, "noteOn writes 4 multiplier registers, A4, A0 and key-on");
    VASSERT((g_tap.reg[CHAN / 6][(CHAN % 6) / 3][0xA4 + CHAN % 3] & 0xC0) == 0, "block/F-number fits 14 bits");
    // F-number * 2^block is the frequency in block-0 units, within half an F-number step of the real value:
    // fnum == round(h0 / 2^block); written per block with constant power-of-two factors (exact in binary FP)
    static const double inv[8] = { 1.0, 0.5, 0.25, 0.125, 0.0625, 0.03125, 0.015625, 0.0078125 };
    bool ok = false;
    for(unsigned b = 0; b < 8; b++)
        if(s.block == b)
        {
            double scaled = h0 * inv[b];
            ok = (double)s.fnum >= scaled - 0.5 && (double)s.fnum <= scaled + 0.5;
        }
    VASSERT(ok, "programmed F-number within half a step of coef*exp(k*tone)/2^block");
    VASSERT(s.block == 7 || (double)s.fnum < 1024.25, "lowest block that holds the frequency below 1023.75 is used");
    for(unsigned op = 0; op < 4; op++)
        VASSERT(s.mul[op] == t.OPS[op].data[0], "inside the native range the detune/multiple registers are the instrument's own");
    VASSERT(s.keyon == 0xF0 + (CHAN % 6 < 3 ? CHAN % 6 : CHAN % 6 + 1), "key-on register addresses this channel with all four operators");
    VWITNESS();
}

extern "C" void harness_mono(void)
{
    OPN2_MIDIPlayer *dev; OpnTimbre t;
    OPN2 *synth = setup(dev, t);
    double t1 = verif_tone, t2 = verif_tone + 0.5;   // two tones, e1 <= e2 by the stub's monotonicity
    double coef = synth->m_chipFamily == OPNChip_OPNA ? 309.12412 : 321.88557;
    VASSUME(coef * exp(0.057762265 * t2) < 2036.75 * 128.0);
    synth->noteOn(CHAN, t1);
    Seen a; read_tap(a, CHAN);
    synth->noteOn(CHAN, t2);
    Seen b; read_tap(b, CHAN);
    // compare in F-number units of the coarser block (one step of tolerance for the rounding of the finer one)
    unsigned long fa = (unsigned long)a.fnum << a.block, fb = (unsigned long)b.fnum << b.block;
    unsigned long step = 1ul << (a.block > b.block ? a.block : b.block);
    VASSERT(fa <= fb + step, "programmed frequency is monotone in the tone (within one F-number step)");
    VWITNESS();
}

// C02: tones over the whole range the API can produce (key/drum key + int16 note offset + bend*range +
// vibrato, |tone| <= 40000), one concrete TONE per obligation with the exp stub's enclosure around it,
// arbitrary timbre: register indices in range, the octave/multiplier search terminates.
extern "C" void harness_safe(void)
{
    OPN2_MIDIPlayer *dev; OpnTimbre t;
    OPN2 *synth = setup(dev, t);
    synth->noteOn(CHAN, verif_tone);
    VASSERT(g_tap.bad == 0, "every register write addresses an existing chip/port/register");
    VWITNESS();
}
