#include "player.hpp"
#include "forge.hpp"
extern "C" void harness_p(void)
{
    OPN2_MIDIPlayer *dev = opn2_init(44100);
    VASSUME(dev != NULL);
    OPNMIDIplay *p = player_of(dev);
    OPN2::Bank *b = forge_bank(p, 0);
    memset(&b->ins[0], 0, sizeof(OpnInstMeta));
    OPNMIDIplay::MIDIchannel::NoteInfo::Phys v = {0, b->ins[0].op[0]};
    int64_t s = p->calculateChipChannelGoodness(0, v);
    volatile int sink = 0;
    for(int64_t i = 0; i < s + 3; i++) sink++;          // loop A: 3 iterations iff s is a constant 0 for symex
    unsigned char vel = nondet_uchar();
    int velo = vel; if(velo > 127) velo = 127; if(velo < 1) velo = 1;
    for(int i = 0; i < (b->ins[0].flags & 2) + 2; i++) sink++;   // loop B: bank byte constant?
    for(unsigned i = 0; i < p->m_midiChannels[0].patch + 2u; i++) sink++; // loop C
    VWITNESS();
}
