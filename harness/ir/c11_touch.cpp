// Kernel harnesses on the real OPN2::touchNote (real player state, TapChip register log), one volume
// MODEL and one MASTER volume value per obligation.
//   harness_range (C11): every TL write is 0..127; zero volume/expression/master silences the carriers;
//                        modulators are written back unchanged (no modulator scaling, brightness 127)
//   harness_mono  (C11): 2-safety: raising ONE control (CTL) never raises a carrier's attenuation
//   harness_safe  (C02): controller values over the whole uint8 range: table indices stay in range
#include "player.hpp"

#ifndef CHAN
#define CHAN 4
#endif
#ifndef MODEL
#define MODEL 0     /* OPN2::VolumesScale: 0 Generic, 1 NATIVE, 2 DMX, 3 APOGEE, 4 9X */
#endif
#ifndef MASTER
#define MASTER 127
#endif
#ifndef CTL
#define CTL 0       /* 0 velocity, 1 channel volume, 2 expression */
#endif

static const bool carrier_mask[8][4] = {   // written from the property text / YM2612 algorithm chart
    {0,0,0,1},{0,0,0,1},{0,0,0,1},{0,0,0,1},{0,0,1,1},{0,1,1,1},{0,1,1,1},{1,1,1,1} };

static OPN2 *setup(OPN2_MIDIPlayer *&dev, OpnTimbre &t)
{
    dev = opn2_init(44100);
    VASSUME(dev != NULL);
    OPN2 *synth = player_of(dev)->m_synth.get();
    synth->m_volumeScale = (OPN2::VolumesScale)MODEL;
    synth->m_masterVolume = MASTER;
    synth->m_scaleModulators = false;
    for(unsigned o = 0; o < 4; o++)
    {
        for(unsigned d = 0; d < 7; d++)
            t.OPS[o].data[d] = 0;
        t.OPS[o].data[1] = nondet_uchar();       // total level byte of the instrument
        VASSUME(t.OPS[o].data[1] <= 127);        // valid TL data
    }
    t.fbalg = nondet_uchar();
    t.lfosens = 0; t.noteOffset = 0;
    synth->m_insCache[CHAN] = t;
    return synth;
}

static void read_tl(unsigned char tl[4])
{
    unsigned chip = CHAN / 6, port = (CHAN % 6) / 3, cc = CHAN % 3;
    for(unsigned op = 0; op < 4; op++)
        tl[op] = g_tap.reg[chip][port][0x40 + cc + 4 * op];
}

extern "C" void harness_range(void)
{
    OPN2_MIDIPlayer *dev; OpnTimbre t;
    OPN2 *synth = setup(dev, t);
    unsigned vel = nondet_uchar(), vol = nondet_uchar(), expr = nondet_uchar();
    VASSUME(vel <= 127 && vol <= 127 && expr <= 127);
    synth->touchNote(CHAN, vel, vol, expr, 127);
    unsigned char tl[4]; read_tl(tl);
    unsigned alg = t.fbalg & 7;
    VASSERT(g_tap.bad == 0, "register writes address existing registers");
    for(unsigned op = 0; op < 4; op++)
    {
        VASSERT(tl[op] <= 127, "total level written is within 0..127");
        if(!carrier_mask[alg][op])
            VASSERT(tl[op] == t.OPS[op].data[1], "modulators are written back unchanged (no modulator scaling, full brightness)");
        else if(vol == 0 || expr == 0 || MASTER == 0)
            VASSERT(tl[op] == 127, "zero volume, expression or master volume silences the carriers");
    }
    VWITNESS();
}

extern "C" void harness_mono(void)
{
    OPN2_MIDIPlayer *dev; OpnTimbre t;
    OPN2 *synth = setup(dev, t);
    unsigned a[3], b[3];
    for(unsigned i = 0; i < 3; i++) { a[i] = nondet_uchar(); VASSUME(a[i] <= 127); b[i] = a[i]; }
    b[CTL] = nondet_uchar();
    VASSUME(b[CTL] <= 127 && a[CTL] <= b[CTL]);
    unsigned char t1[4], t2[4];
    synth->touchNote(CHAN, a[0], a[1], a[2], 127); read_tl(t1);
    synth->touchNote(CHAN, b[0], b[1], b[2], 127); read_tl(t2);
    unsigned alg = t.fbalg & 7;
    for(unsigned op = 0; op < 4; op++)
        if(carrier_mask[alg][op])
            VASSERT(t2[op] <= t1[op], "carrier attenuation does not increase when the control increases");
    VWITNESS();
}

extern "C" void harness_safe(void)
{
    OPN2_MIDIPlayer *dev; OpnTimbre t;
    OPN2 *synth = setup(dev, t);
    synth->m_masterVolume = nondet_uchar() & 0x7F;   // the API can only store 14-bit >> 7
    synth->m_scaleModulators = nondet_uchar() & 1;
    unsigned vel = nondet_uchar(), vol = nondet_uchar(), expr = nondet_uchar(), bright = nondet_uchar();
    synth->touchNote(CHAN, vel, vol, expr, (uint8_t)bright);
    VASSERT(g_tap.bad == 0, "register writes address existing registers");
    VWITNESS();
}
