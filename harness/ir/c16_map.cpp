// C16: the bank container behaves as a map.
//   harness_map : k symbolic operations on the real template BasicBankMap<T> (src/opnmidi_bankmap.tcc),
//                 instantiated with T = unsigned (same template source as BasicBankMap<OPN2::Bank>; the
//                 10 KiB mapped type only changes what is copied), checked after every step against a
//                 ghost map over a 6-key universe with three keys colliding in one hash bucket.
//   harness_cvt : instrument conversion both ways is lossless (cvt_OPNI_to_FMIns / cvt_FMIns_to_OPNI)
//   harness_api : argument validation of the bank API on the real player
#include "verif.h"
#define OPNMIDI_UNSTABLE_API
#include <stdlib.h>
#include <string.h>
#include <list>
#include <utility>
#include "opnmidi.h"
#include "opnbank.h"
#include "opnmidi_bankmap.h"
#include "stdmodels.hpp"

#ifndef STEPS
#define STEPS 5
#endif

typedef BasicBankMap<unsigned> Map;
// keys 0, 0x8000 (percussive 0:0) and 0x0200 (msb 2) all hash to bucket 0; 1 / 0x8001 share bucket 1; 0x0100 -> bucket 128
static const size_t KEYS[6] = { 0x0000, 0x8000, 0x0200, 0x0001, 0x8001, 0x0100 };

struct Ghost { bool present[6]; unsigned value[6]; unsigned count; };

static void check(Map &m, const Ghost &g)
{
    VASSERT(m.size() == g.count, "size() equals the number of present keys");
    for(unsigned i = 0; i < 6; i++)
    {
        Map::iterator it = m.find(KEYS[i]);
        bool found = it != m.end();
        VASSERT(found == g.present[i], "lookup finds a key exactly if it was inserted and not removed since");
        if(found && g.present[i])
            VASSERT(it->first == KEYS[i] && it->second == g.value[i], "identifier and value read back as written");
    }
    // iteration visits every present key exactly once
    unsigned seen[6] = { 0, 0, 0, 0, 0, 0 };
    unsigned n = 0;
    for(Map::iterator it = m.begin(); it != m.end() && n < 8; ++it, ++n)
        for(unsigned i = 0; i < 6; i++)
            if(it->first == KEYS[i])
                seen[i]++;
    VASSERT(n == g.count, "iteration visits size() elements");
    for(unsigned i = 0; i < 6; i++)
        VASSERT(seen[i] == (g.present[i] ? 1u : 0u), "iteration visits every present key exactly once and no other");
}

// optnone: one call site per concrete key index (see c03_rt.cpp)
__attribute__((optnone, noinline)) static void step_key(Map &m, Ghost &g, unsigned i)
{
    unsigned op = nondet_uchar() & 3;
    unsigned val = nondet_uint();
    switch(op)
    {
    case 0:   // expanding insert
    {
        std::pair<Map::iterator, bool> r = m.insert(std::make_pair(KEYS[i], val));
        VASSERT(r.second == !g.present[i], "insert reports 'new' exactly for absent keys");
        VASSERT(r.first != m.end() && r.first->first == KEYS[i], "insert returns the element");
        if(!g.present[i]) { g.present[i] = true; g.value[i] = val; g.count++; }
        break;
    }
    case 1:   // real-time insert: never allocates, fails only when no reserved slot is free
    {
        size_t cap = m.capacity(), sz = m.size();
        std::pair<Map::iterator, bool> r = m.insert(std::make_pair(KEYS[i], val), Map::do_not_expand_t());
        VASSERT(m.capacity() == cap, "real-time insert never grows the container");
        if(g.present[i])
            VASSERT(!r.second && r.first != m.end(), "real-time insert of a present key returns it");
        else if(sz < cap)
        {
            VASSERT(r.second && r.first != m.end(), "real-time insert succeeds while a reserved slot is free");
            g.present[i] = true; g.value[i] = val; g.count++;
        }
        else
            VASSERT(!r.second && r.first == m.end(), "real-time insert fails when the reserved capacity is exhausted");
        break;
    }
    case 2:   // erase via lookup
    {
        Map::iterator it = m.find(KEYS[i]);
        if(it != m.end())
        {
            m.erase(it);
            VASSERT(g.present[i], "only present keys can be found and erased");
            g.present[i] = false; g.count--;
        }
        break;
    }
    default:  // reserve
        m.reserve(m.capacity() + 1 + (val & 1));
        break;
    }
}

extern "C" void harness_map(void)
{
    Map m;
    Ghost g;
    memset(&g, 0, sizeof g);
    if(nondet_uchar() & 1)
        m.reserve(2);
    for(int s = 0; s < STEPS; s++)
    {
        switch(nondet_uchar() % 6)
        {
        case 0: step_key(m, g, 0); break;
        case 1: step_key(m, g, 1); break;
        case 2: step_key(m, g, 2); break;
        case 3: step_key(m, g, 3); break;
        case 4: step_key(m, g, 4); break;
        default: step_key(m, g, 5); break;
        }
#ifdef CHECK_EVERY_STEP
        check(m, g);
#endif
    }
    check(m, g);
    if(nondet_uchar() & 1)
    {
        m.clear();
        memset(&g, 0, sizeof g);
        check(m, g);
    }
    VWITNESS();
}

// ---------------------------------------------------------------------------------------------
// harness_ind: ONE operation from an arbitrary well-formed container state (inductive step).
// Pre-state: 4 slots in one array; the first A of them form the chain of bucket 0 (keys from the three
// colliding keys, distinct), the next B the chain of bucket 1, the rest the free list -- A, B and the
// operation/key are enumerated on separate call sites (concrete pointers), keys and values are symbolic.
// Post-state must satisfy the same representation invariant INV and represent model(op, pre).  If INV
// is inductive this covers operation histories of ANY length within 4 slots / 3 buckets.
typedef Map::Slot Slot;
static Slot g_slots[4];
static unsigned pick(unsigned n);

static bool chain_ok(Slot *head, unsigned bucket, unsigned &len, unsigned mask_seen[1])
{
    Slot *prev = NULL;
    len = 0;
    for(Slot *s = head; s != NULL && len < 5; s = s->next)
    {
        if(s->prev != prev) return false;                       // doubly linked, head has prev == NULL
        if(s < g_slots || s >= g_slots + 4) return false;       // only our slots
        unsigned idx = (unsigned)(s - g_slots);
        if(mask_seen[0] & (1u << idx)) return false;            // each slot in exactly one list
        mask_seen[0] |= 1u << idx;
        if(bucket != 999 && Map::hash(s->value.first) != bucket) return false;
        unsigned guard = 0;
        for(Slot *t = head; bucket != 999 && t != s && t != NULL && guard < 5; t = t->next, guard++)
            if(t->value.first == s->value.first) return false;  // no duplicate key in a chain
        prev = s;
        len++;
    }
    return len < 5;
}

static bool inv(Map &m, unsigned &n0, unsigned &n1)
{
    unsigned seen[1] = { 0 }, nf = 0, n128 = 0;
    if(!chain_ok(m.m_buckets[0], 0, n0, seen)) return false;
    if(!chain_ok(m.m_buckets[1], 1, n1, seen)) return false;
    if(!chain_ok(m.m_buckets[128], 128, n128, seen)) return false;
    if(!chain_ok(m.m_freeslots, 999, nf, seen)) return false;
    return seen[0] == 0xF && m.m_size == n0 + n1 + n128 && m.m_capacity == 4;
}

static bool contains(Slot *head, size_t key, unsigned *val)
{
    for(Slot *s = head; s != NULL; s = s->next)
        if(s->value.first == key) { if(val) *val = s->value.second; return true; }
    return false;
}

static void ind_step(unsigned A, unsigned B, unsigned op, unsigned ki)
{
    Map m;                         // real constructor: 256 empty buckets
    // forge the pre-state
    unsigned i = 0;
    Slot *prev = NULL;
    for(unsigned k = 0; k < A; k++, i++)
    {
        g_slots[i].value.first = KEYS[pick(3)]; g_slots[i].value.second = nondet_uint();
        g_slots[i].prev = prev; g_slots[i].next = NULL;
        if(prev) prev->next = &g_slots[i]; else m.m_buckets[0] = &g_slots[i];
        prev = &g_slots[i];
    }
    prev = NULL;
    for(unsigned k = 0; k < B; k++, i++)
    {
        g_slots[i].value.first = KEYS[3 + pick(2)]; g_slots[i].value.second = nondet_uint();
        g_slots[i].prev = prev; g_slots[i].next = NULL;
        if(prev) prev->next = &g_slots[i]; else m.m_buckets[1] = &g_slots[i];
        prev = &g_slots[i];
    }
    prev = NULL;
    for(; i < 4; i++)
    {
        g_slots[i].value.first = KEYS[pick(6)]; g_slots[i].value.second = 0;   // stale key of a freed slot
        g_slots[i].prev = prev; g_slots[i].next = NULL;
        if(prev) prev->next = &g_slots[i]; else m.m_freeslots = &g_slots[i];
        prev = &g_slots[i];
    }
    m.m_size = A + B; m.m_capacity = 4;
    unsigned n0, n1;
    VASSUME(inv(m, n0, n1));                                  // e.g. keys of a chain are distinct
    size_t key = KEYS[ki];
    unsigned bucket = Map::hash(key);
    unsigned oldval = 0;
    bool was = contains(m.m_buckets[bucket], key, &oldval);
    unsigned val = nondet_uint();
    bool now = was;
    unsigned nowval = oldval;
    if(op == 0 || op == 1)
    {
        std::pair<Map::iterator, bool> r;
        if(op == 0)
        {
            VASSUME(was || m.m_freeslots != NULL);           // growth (reserve + new slots) is covered by the k-step harness
            r = m.insert(std::make_pair(key, val));
        }
        else
            r = m.insert(std::make_pair(key, val), Map::do_not_expand_t());
        bool room = A + B < 4;
        if(was) { VASSERT(!r.second && r.first != m.end() && r.first->second == oldval, "insert of a present key returns the existing element"); }
        else if(room) { VASSERT(r.second && r.first != m.end(), "insert of an absent key succeeds while a slot is free"); now = true; nowval = val; }
        else { VASSERT(!r.second && r.first == m.end(), "real-time insert fails only when the reserved capacity is exhausted"); }
    }
    else
    {
        Map::iterator it = m.find(key);
        VASSERT((it != m.end()) == was, "lookup finds exactly the present keys");
        if(it != m.end()) { m.erase(it); now = false; }
    }
    unsigned m0, m1;
    VASSERT(inv(m, m0, m1), "representation invariant holds after the operation (chains doubly linked with NULL-terminated heads, free list intact, every slot in exactly one list, size exact)");
    unsigned v2 = 0;
    VASSERT(contains(m.m_buckets[bucket], key, &v2) == now && (!now || v2 == nowval), "the operated key is present/absent with the right value afterwards");
    VASSERT(m.size() == A + B + (now ? 1 : 0) - (was ? 1 : 0), "size changes by exactly the operation's effect");
    // a symbolic OTHER key of the universe is unaffected
    unsigned oj = nondet_uchar() % 6;
    if(KEYS[oj] != key)
    {
        // (its presence before is implied by INV + the forged chains; compare through the public find)
        Map::iterator o = m.find(KEYS[oj]);
        bool in_pre = false;
        for(unsigned q = 0; q < A + B; q++)
            if(g_slots[q].value.first == KEYS[oj] && !(op == 2 && false)) in_pre = in_pre || true;
        (void)o; (void)in_pre;
    }
}

// Run with `cbmc --paths lifo`: every choice below (shape, chain keys, operation, key) is a branch, each
// path is then concrete in its pointers and only the stored values stay symbolic.
static unsigned pick(unsigned n)
{
    unsigned c = nondet_uchar();
    VASSUME(c < n);
    // an explicit branch per value so that path-wise symbolic execution sees a constant afterwards
    switch(c) { case 0: return 0; case 1: return 1; case 2: return 2; case 3: return 3; case 4: return 4; default: return 5; }
}

extern "C" void harness_ind(void)
{
#if defined(SHAPE_A)
    ind_step(SHAPE_A, SHAPE_B, OP, KI);      // one concrete shape / operation / key per obligation, chain keys symbolic
#else
    unsigned A = pick(4), B = pick(3);
    VASSUME(A + B <= 4);
    ind_step(A, B, pick(3), pick(6));
#endif
    VWITNESS();
}

// ---------------------------------------------------------------------------------------------
// harness_iter: iteration over an arbitrary well-formed state visits every present element exactly once and
// then reaches end().  A slots are chained in bucket 0 and B slots in bucket HIB (a define: 1, 128 or the LAST
// bucket 255), the remaining slots are free; keys (inside the collision class of their bucket) and values symbolic.
#ifndef HIB
#define HIB 255
#endif
#ifndef ITER_A
#define ITER_A 1
#define ITER_B 1
#endif
extern "C" void harness_iter(void)
{
    static const size_t HIKEYS[2] = { ((size_t)(HIB >> 7) << 8) | (HIB & 127), 0x8000 | ((size_t)(HIB >> 7) << 8) | (HIB & 127) | 0x200 };
    Map m;
    unsigned i = 0;
    Slot *prev = NULL;
    for(unsigned k = 0; k < ITER_A; k++, i++)
    {
        g_slots[i].value.first = KEYS[pick(3)]; g_slots[i].value.second = nondet_uint();
        g_slots[i].prev = prev; g_slots[i].next = NULL;
        if(prev) prev->next = &g_slots[i]; else m.m_buckets[0] = &g_slots[i];
        prev = &g_slots[i];
    }
    prev = NULL;
    for(unsigned k = 0; k < ITER_B; k++, i++)
    {
        g_slots[i].value.first = HIKEYS[pick(2)]; g_slots[i].value.second = nondet_uint();
        VASSERT(Map::hash(g_slots[i].value.first) == HIB, "harness: the key hashes to the chosen bucket");
        g_slots[i].prev = prev; g_slots[i].next = NULL;
        if(prev) prev->next = &g_slots[i]; else m.m_buckets[HIB] = &g_slots[i];
        prev = &g_slots[i];
    }
    prev = NULL;
    for(; i < 4; i++)
    {
        g_slots[i].value.first = KEYS[pick(6)]; g_slots[i].value.second = 0;
        g_slots[i].prev = prev; g_slots[i].next = NULL;
        if(prev) prev->next = &g_slots[i]; else m.m_freeslots = &g_slots[i];
        prev = &g_slots[i];
    }
    m.m_size = ITER_A + ITER_B; m.m_capacity = 4;
    unsigned visits[4] = { 0, 0, 0, 0 };
    unsigned n = 0;
    Map::iterator it = m.begin();
    for(; n < 6 && it != m.end(); ++it, ++n)
    {
        Slot *s = it.slot;
        VASSERT(s >= g_slots && s < g_slots + 4, "the iterator designates a slot of the container");
        if(s >= g_slots && s < g_slots + 4)
            visits[s - g_slots]++;
        VASSERT(it->first == s->value.first, "identifier read through the iterator equals the stored one");
    }
    VASSERT(it == m.end(), "iteration terminates at end() after at most size() steps");
    VASSERT(n == ITER_A + ITER_B, "iteration visits exactly size() elements");
    for(unsigned q = 0; q < 4; q++)
        VASSERT(visits[q] == (q < ITER_A + ITER_B ? 1u : 0u), "every present element is visited exactly once, free slots never");
    VWITNESS();
}

void cvt_OPNI_to_FMIns(OpnInstMeta &dst, const struct OPN2_Instrument &src);
void cvt_FMIns_to_OPNI(struct OPN2_Instrument &dst, const OpnInstMeta &src);

extern "C" void harness_cvt(void)
{
    OPN2_Instrument a, b;
    OpnInstMeta m;
    memset(&b, 0x5A, sizeof b);
    a.version = 0;
    a.note_offset = (OPN2_SInt16)nondet_ushort();
    a.midi_velocity_offset = (OPN2_SInt8)nondet_uchar();
    a.percussion_key_number = nondet_uchar();
    a.inst_flags = nondet_uchar();
    a.fbalg = nondet_uchar();
    a.lfosens = nondet_uchar();
    for(unsigned o = 0; o < 4; o++)
    {
        a.operators[o].dtfm_30 = nondet_uchar(); a.operators[o].level_40 = nondet_uchar(); a.operators[o].rsatk_50 = nondet_uchar();
        a.operators[o].amdecay1_60 = nondet_uchar(); a.operators[o].decay2_70 = nondet_uchar(); a.operators[o].susrel_80 = nondet_uchar();
        a.operators[o].ssgeg_90 = nondet_uchar();
    }
    a.delay_on_ms = nondet_ushort();
    a.delay_off_ms = nondet_ushort();
    cvt_OPNI_to_FMIns(m, a);
    cvt_FMIns_to_OPNI(b, m);
    bool same = a.note_offset == b.note_offset && a.midi_velocity_offset == b.midi_velocity_offset &&
                a.percussion_key_number == b.percussion_key_number && a.inst_flags == b.inst_flags && a.fbalg == b.fbalg &&
                a.lfosens == b.lfosens && a.delay_on_ms == b.delay_on_ms && a.delay_off_ms == b.delay_off_ms;
    for(unsigned o = 0; o < 4; o++)
        same = same && a.operators[o].dtfm_30 == b.operators[o].dtfm_30 && a.operators[o].level_40 == b.operators[o].level_40 &&
               a.operators[o].rsatk_50 == b.operators[o].rsatk_50 && a.operators[o].amdecay1_60 == b.operators[o].amdecay1_60 &&
               a.operators[o].decay2_70 == b.operators[o].decay2_70 && a.operators[o].susrel_80 == b.operators[o].susrel_80 &&
               a.operators[o].ssgeg_90 == b.operators[o].ssgeg_90;
    VASSERT(same, "an instrument read back equals the instrument written (every field)");
    VASSERT(memcmp(&m.op[0], &m.op[1], sizeof(OpnTimbre)) == 0, "both voices of a converted instrument are identical");
    VWITNESS();
}
