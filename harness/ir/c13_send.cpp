// C13.send: the real SendStereoAudio + CopySamples* + opn2_cvt* (static in
// opnmidi.cpp, reached by #including the file) on exact-size output objects.
#include "verif.h"
#include <stdlib.h>
#include <string.h>
#include "opnmidi.cpp"

#ifndef MAXFRAMES
#define MAXFRAMES 2
#endif
#ifndef REQ
#define REQ 4
#endif
#define BUFMAX ((REQ / 2) * 17 + 2 * 9 + 8)

static int32_t ref_s16(int32_t x) { return x < -32768 ? -32768 : (x > 32767 ? 32767 : x); }

// documented conversion of one sample, written from include/opnmidi.h / the property
// text; returns byte k of the container (loop free), or -1 for unsupported pairs
static int ref_byte(int type, unsigned container, int32_t x, unsigned k)
{
    int32_t s = ref_s16(x);
    int64_t v;
    uint64_t u;
    switch(type)
    {
    case OPNMIDI_SampleType_S16: v = s; if(container != 2 && container != 4) return -1; break;
    case OPNMIDI_SampleType_U16: v = s + 32768; if(container != 2 && container != 4) return -1; break;
    case OPNMIDI_SampleType_S8: v = s / 256; if(container != 1 && container != 2 && container != 4) return -1; break;
    case OPNMIDI_SampleType_U8: v = s / 256 + 128; if(container != 1 && container != 2 && container != 4) return -1; break;
    case OPNMIDI_SampleType_S24: v = s * 256; if(container != 4) return -1; break;
    case OPNMIDI_SampleType_U24: v = s * 256 + 8388608; if(container != 4) return -1; break;
    case OPNMIDI_SampleType_S32: v = (int64_t)s * 65536; if(container != 4) return -1; break;
    case OPNMIDI_SampleType_U32: v = (int64_t)s * 65536 + 2147483648LL; if(container != 4) return -1; break;
    case OPNMIDI_SampleType_F32:
    {
        if(container != 4) return -1;
        float f = (float)x * (1.0f / 32767.0f);
        uint32_t b; memcpy(&b, &f, 4);
        return (int)((b >> (8 * (k & 3))) & 0xff);
    }
    case OPNMIDI_SampleType_F64:
    {
        if(container != 8) return -1;
        double f = (double)x * (1.0 / 32767.0);
        uint64_t b; memcpy(&b, &f, 8);
        return (int)((b >> (8 * (k & 7))) & 0xff);
    }
    default:
        return -1;
    }
    u = (uint64_t)v;
    return (int)((u >> (8 * (k & 7))) & 0xff);
}

// requested / out_pos are concrete per call (enumerated by the caller's loops) so that
// every offset product is constant x symbolic; sampleOffset, sizes and samples stay symbolic
static void body(unsigned requested, unsigned out_pos)
{
    int type = nondet_int();
    unsigned container = nondet_uint();
    unsigned sampleOffset = nondet_uint();
    unsigned frames_in = nondet_uint();        // frames available in the mixing buffer
    bool planar = nondet_uchar() & 1;
    VASSUME(container >= 1 && container <= 9);
#if defined(CLASS_INT)
    VASSUME(type != OPNMIDI_SampleType_F32 && type != OPNMIDI_SampleType_F64);
#elif defined(CLASS_F32)
    VASSUME(type == OPNMIDI_SampleType_F32);
#elif defined(CLASS_F64)
    VASSUME(type == OPNMIDI_SampleType_F64);
#endif
#if defined(SO)
    VASSUME(sampleOffset == SO);
#endif
#if defined(CONT)
    VASSUME(container == CONT);
#endif
#if defined(PLANAR)
    VASSUME(planar == (PLANAR != 0));
#endif
    VASSUME(sampleOffset <= 17);
    VASSUME(frames_in >= 1 && frames_in <= MAXFRAMES);
    // caller contract (documented layout): frames are sampleOffset bytes apart and a
    // container fits into its slot; interleaved: right = left + container
    VASSUME(planar ? sampleOffset >= container : sampleOffset >= 2 * container);

    int32_t in[2 * MAXFRAMES];
    for(unsigned i = 0; i < 2 * MAXFRAMES; i++)
        in[i] = nondet_int();

    unsigned total_frames = requested / 2;
    // Destination objects have a fixed size (BUFMAX bytes, content arbitrary); the caller's
    // buffer is the prefix [0, lsize) the documented layout needs, everything behind it is
    // a guard zone that must stay unchanged (a write past BUFMAX is a CBMC bounds failure).
    size_t lsize, rsize;
    unsigned char lbuf[BUFMAX], rbuf[BUFMAX];
    unsigned char *left = lbuf, *right;
#ifdef NATIVE_REPLAY
    for(unsigned i = 0; i < BUFMAX; i++) { lbuf[i] = (unsigned char)(i * 37 + 11); rbuf[i] = (unsigned char)(i * 91 + 5); }
#endif
    if(planar)
    {
        lsize = total_frames ? (size_t)(total_frames - 1) * sampleOffset + container : 0;
        rsize = lsize;
        right = rbuf;
    }
    else
    {
        lsize = total_frames ? (size_t)(total_frames - 1) * sampleOffset + 2 * container : 0;
        rsize = 0;
        right = left + container;
    }

    // "for every byte" = one symbolic probe index per buffer
    size_t pl = nondet_ulong(), pr = nondet_ulong();
    VASSUME(pl < BUFMAX);
    VASSUME(pr < BUFMAX);
    unsigned char l0 = lbuf[pl];
    unsigned char r0 = rbuf[pr];

    OPNMIDI_AudioFormat fmt;
    fmt.type = (OPNMIDI_SampleType)type;
    fmt.containerSize = container;
    fmt.sampleOffset = sampleOffset;

    int rc = SendStereoAudio((int)requested, (ssize_t)frames_in, in, (ssize_t)out_pos, left, right, &fmt);

    bool supported = ref_byte(type, container, 0, 0) >= 0;
    VASSERT((rc == -1) == !supported, "refused (-1) exactly for unsupported type/container pairs");
    VASSERT(rc == 0 || rc == -1, "return value is 0 or -1");

    size_t avail = requested - out_pos;
    size_t copied = (avail < 2 * (size_t)frames_in ? avail : 2 * (size_t)frames_in) / 2; // frames
    size_t first = out_pos / 2;
    int el = l0, er = r0;
    if(rc == 0)
        for(size_t f = 0; f < MAXFRAMES; f++)
        {
            if(f >= copied)
                break;
            size_t base = (first + f) * sampleOffset;
            if(pl >= base && pl < base + container)
                el = ref_byte(type, container, in[2 * f], (unsigned)(pl - base));
            if(!planar && pl >= base + container && pl < base + 2 * container)
                el = ref_byte(type, container, in[2 * f + 1], (unsigned)(pl - base - container));
            if(planar && pr >= base && pr < base + container)
                er = ref_byte(type, container, in[2 * f + 1], (unsigned)(pr - base));
        }
    VASSERT(lbuf[pl] == el, "left/interleaved buffer: documented conversion where reported, untouched elsewhere");
    VASSERT(rbuf[pr] == er, "right buffer: documented conversion where reported, untouched elsewhere");
    (void)lsize; (void)rsize;
}

#ifndef REQ
#define REQ 4
#endif
extern "C" void harness_send(void)
{
    for(unsigned pos = 0; pos <= REQ; pos += 2)
        body(REQ, pos);
    VWITNESS();
}
