// C04 / C05 scenario harnesses: fixed call sequences taken from the property text with ONE symbolic slot
// X (any operation of the alphabet, dispatched on separate call sites so that the state stays concrete),
// on the real player with a pinned melodic instrument.  After EVERY call:
//   C05: the set of (channel,key) pairs owning a keyed-on chip channel equals the reference model
//        (key down, or held by the sustain pedal, or caught by sostenuto);
//   C04: the voice-allocation bookkeeping invariant INV4 holds.
#include "player.hpp"
#include "forge.hpp"
#include <math.h>

#ifndef SCEN
#define SCEN 1
#endif
enum { K1 = 60, K2 = 64 };

static OPN2_MIDIPlayer *g_dev;
static OPNMIDIplay *g_p;

// ---------------- reference model (written from the property text), MIDI channel 0, keys K1/K2
struct Model { bool pedal; bool down[2], ped[2], sost[2]; };
static Model g_m;
static int ki(unsigned k) { return k == K1 ? 0 : 1; }
static bool sounding(int i) { return g_m.down[i] || g_m.ped[i] || g_m.sost[i]; }
static void m_noteoff(int i) { if(g_m.down[i]) { g_m.down[i] = false; if(g_m.pedal) g_m.ped[i] = true; } }

// ---------------- observation on the real state (no list traversals: they cost minutes of symbolic execution)
static unsigned keyed_count(void)
{
    unsigned keyed = 0;
    for(unsigned c = 0; c < 12; c++)
        keyed += g_tap.keyed[c / 6][c % 6];
    return keyed;
}

static void check(void)
{
    // C05: with at most two notes every sounding (channel,key) owns exactly one keyed-on chip channel
    VASSERT(keyed_count() == (unsigned)sounding(0) + (unsigned)sounding(1),
            "the number of keyed-on chip channels equals the number of keys held by key, pedal or sostenuto");
    // C04: a chip channel is keyed on exactly when it has at least one user
    for(unsigned c = 0; c < 12; c++)
        VASSERT((g_tap.keyed[c / 6][c % 6] != 0) == !g_p->m_chipChannels[c].users.empty(), "a chip channel is keyed on exactly when it has at least one user");
    // C04: the per-channel note list holds exactly the keys that are down (released-but-held keys live on as users only)
    VASSERT(g_p->m_midiChannels[0].activenotes.size() == (size_t)g_m.down[0] + (size_t)g_m.down[1], "active notes of the MIDI channel = keys that are down");
    VASSERT(g_p->m_midiChannels[0].gliding_note_count <= g_p->m_midiChannels[0].activenotes.size() &&
            g_p->m_midiChannels[0].extended_note_count <= g_p->m_midiChannels[0].activenotes.size(), "gliding / extended-lifetime counters never exceed the number of notes");
}

static void check_all_released(void)
{
    VASSERT(keyed_count() == 0, "once every key and pedal is released no chip channel remains keyed on (no stuck notes)");
    VASSERT(g_p->m_midiChannels[0].activenotes.empty(), "no active note remains");
    VASSERT(g_p->m_midiChannels[0].gliding_note_count == 0 && g_p->m_midiChannels[0].extended_note_count == 0, "gliding / extended-lifetime counters are back to zero");
    for(unsigned c = 0; c < 12; c++)
        VASSERT(g_p->m_chipChannels[c].users.empty(), "no chip channel has a user left");
}

// ---------------- operations (real API call + model transition)
enum Op { NOTEON1, NOTEON2, NOTEOFF1, NOTEOFF2, NOTEON1_V0, PED_ON, PED_OFF, SOST_ON, SOST_OFF, ALLNOTESOFF, ALLSOUNDOFF, RESETCTL,
          PATCH, BEND, VOLUME, PORTA_TIME, PORTA_ON, AFTERTOUCH, OP_COUNT };

static void do_op(int op)
{
    unsigned char v = nondet_uchar();
    switch(op)
    {
    case NOTEON1: case NOTEON2:
    {
        int i = op == NOTEON1 ? 0 : 1;
        (void)v;   // control-relevant arguments are concrete: an assumed-but-symbolic value would fork every later branch on it
        opn2_rt_noteOn(g_dev, 0, i ? K2 : K1, i ? 1 : 127);
        g_m.down[i] = true; g_m.ped[i] = false; g_m.sost[i] = false;
        break;
    }
    case NOTEOFF1: opn2_rt_noteOff(g_dev, 0, K1); m_noteoff(0); break;
    case NOTEOFF2: opn2_rt_noteOff(g_dev, 0, K2); m_noteoff(1); break;
    case NOTEON1_V0: opn2_rt_noteOn(g_dev, 0, K1, 0); m_noteoff(0); break;
    case PED_ON: opn2_rt_controllerChange(g_dev, 0, 64, 64); g_m.pedal = true; break;
    case PED_OFF: opn2_rt_controllerChange(g_dev, 0, 64, 63); g_m.pedal = false; g_m.ped[0] = g_m.ped[1] = false; break;
    case SOST_ON: opn2_rt_controllerChange(g_dev, 0, 66, 127);
        for(int i = 0; i < 2; i++) if(g_m.down[i]) g_m.sost[i] = true;
        break;
    case SOST_OFF: opn2_rt_controllerChange(g_dev, 0, 66, 0); g_m.sost[0] = g_m.sost[1] = false; break;
    case ALLNOTESOFF: opn2_rt_controllerChange(g_dev, 0, 123, v); m_noteoff(0); m_noteoff(1); break;
    case ALLSOUNDOFF: opn2_rt_controllerChange(g_dev, 0, 120, v); m_noteoff(0); m_noteoff(1); break;
    case RESETCTL: opn2_rt_controllerChange(g_dev, 0, 121, v); g_m.pedal = false;
        for(int i = 0; i < 2; i++) { g_m.ped[i] = false; g_m.sost[i] = false; }
        break;
    case PATCH: opn2_rt_patchChange(g_dev, 0, 5); break;          // no effect on sounding notes
    case BEND: opn2_rt_pitchBend(g_dev, 0, (OPN2_UInt16)(v << 6)); break;
    case VOLUME: opn2_rt_controllerChange(g_dev, 0, 7, v & 0x7F); break;
    case PORTA_TIME: opn2_rt_controllerChange(g_dev, 0, 5, 40); break;
    case PORTA_ON: opn2_rt_controllerChange(g_dev, 0, 65, 64); break;
    default: opn2_rt_channelAfterTouch(g_dev, 0, 0); break;
    }
    check();
}

static void tail(void);

// the symbolic slot: every operation of the alphabet on its own call site, followed by the scenario's tail
__attribute__((optnone, noinline)) static void slot_then_tail(void)
{
#ifdef XOP
    do_op(XOP); tail(); return;            // the slot is fixed per obligation (cost), every operation has its own obligation
#endif
    switch(nondet_uchar() % OP_COUNT)
    {
    case 0: do_op(NOTEON1); tail(); break;       case 1: do_op(NOTEON2); tail(); break;
    case 2: do_op(NOTEOFF1); tail(); break;      case 3: do_op(NOTEOFF2); tail(); break;
    case 4: do_op(NOTEON1_V0); tail(); break;    case 5: do_op(PED_ON); tail(); break;
    case 6: do_op(PED_OFF); tail(); break;       case 7: do_op(SOST_ON); tail(); break;
    case 8: do_op(SOST_OFF); tail(); break;      case 9: do_op(ALLNOTESOFF); tail(); break;
    case 10: do_op(ALLSOUNDOFF); tail(); break;  case 11: do_op(RESETCTL); tail(); break;
    case 12: do_op(PATCH); tail(); break;        case 13: do_op(BEND); tail(); break;
    case 14: do_op(VOLUME); tail(); break;       case 15: do_op(PORTA_TIME); tail(); break;
    case 16: do_op(PORTA_ON); tail(); break;     default: do_op(AFTERTOUCH); tail(); break;
    }
}

// after the tail every key and pedal is released: nothing may remain keyed on
static void release_all_and_check(void)
{
    do_op(NOTEOFF1); do_op(NOTEOFF2); do_op(PED_OFF); do_op(SOST_OFF);
    VASSERT(!sounding(0) && !sounding(1), "model: everything released");
    check_all_released();
}

static void tail(void)
{
#if SCEN == 1      /* pedal scenario: ... X, then pedal off */
    do_op(PED_OFF);
#elif SCEN == 2    /* sostenuto scenario: ... X, then sostenuto off */
    do_op(SOST_OFF);
#elif SCEN == 3    /* portamento scenario: ... X, then the same key again */
    do_op(NOTEON1);
#endif
    release_all_and_check();
}

extern "C" __attribute__((optnone, noinline)) void harness_scen(void)
{
    g_dev = opn2_init(44100);
    VASSUME(g_dev != NULL);
    g_p = player_of(g_dev);
    OPN2::Bank *mel = forge_bank(g_p, 0);
    pin_instrument(mel, 0, 1, 0); mel->ins[0].flags = 0; mel->ins[0].midiVelocityOffset = 0;
    pin_instrument(mel, 5, 2, 12); mel->ins[5].flags = 0; mel->ins[5].midiVelocityOffset = 0;
    memset(&g_m, 0, sizeof g_m);
    check();
#if SCEN == 1
    do_op(PED_ON); do_op(NOTEON1); do_op(NOTEOFF1);
#elif SCEN == 2
    do_op(NOTEON1); do_op(SOST_ON); do_op(NOTEOFF1);
#elif SCEN == 3
    do_op(PORTA_TIME); do_op(PORTA_ON); do_op(NOTEON1);
#elif SCEN == 4
    do_op(NOTEON1); do_op(NOTEON2);
#endif
    slot_then_tail();
    VWITNESS();
}
