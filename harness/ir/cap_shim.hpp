// Verification-build shim, force-included (-include) in every TU of the player harnesses.
// OPNMIDIplay hard-codes the capacity 128 of its preallocated lists in two constructor
// initialisers: `activenotes(128)` (notes per MIDI channel) and `users(128)` (users per chip
// channel).  Initialising 28 lists of 128 cells dominates symbolic execution, so the build
// rewrites exactly that literal to VERIF_LIST_CAP without touching the source: the function-like
// macros below only fire on `activenotes(`/`users(` (the two initialisers and the copy
// constructor's `users(oth.users)`), and verif_cap() passes every argument through unchanged
// except the int literal 128.  pl_list itself is the real code.  The reduced capacity is part
// of every claim made by these harnesses (stated in the evidence).
#ifndef VERIF_CAP_SHIM_HPP
#define VERIF_CAP_SHIM_HPP
#ifdef __cplusplus
#include <cstddef>
#ifndef VERIF_LIST_CAP
#define VERIF_LIST_CAP 4
#endif
template <class T> inline const T &verif_cap(const T &x) { return x; }
inline std::size_t verif_cap(int n) { return n == 128 ? (std::size_t)VERIF_LIST_CAP : (std::size_t)n; }
#define activenotes(n) activenotes(verif_cap(n))
#define users(n) users(verif_cap(n))
#endif
#endif
