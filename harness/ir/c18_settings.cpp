// C18: settings are transactional (accepted values stick, rejected ones change nothing).
// Real API on the real player (TapChip emulator stubs); one entry point per obligation.
#include "player.hpp"
#include "midi_sequencer.h"

static void snapshot(OPNMIDIplay *p, OPNMIDIplay::Setup &s, unsigned &chips, unsigned &chans, int &emu_ctor)
{
    s = p->m_setup;
    chips = p->m_synth->m_numChips;
    chans = p->m_synth->m_numChannels;
    emu_ctor = (int)g_tap.ctor_count;
}

// opn2_setNumChips with invalid values: refused, nothing changes.  The values are enumerated on separate
// call sites (the property's boundary list): with a symbolic argument the accepting branch (a reset with a
// symbolic chip count) would have to be explored too, although the assumption excludes it.
__attribute__((optnone, noinline)) static void bad_chips(OPN2_MIDIPlayer *dev, int n)
{
    int before = opn2_getNumChips(dev), obtained = opn2_getNumChipsObtained(dev);
    unsigned w0 = g_tap.writes, h0 = verif_stub_hits;
    int rc = opn2_setNumChips(dev, n);
    VASSERT(rc == -1, "chip counts outside 1..100 are refused");
    VASSERT(opn2_getNumChips(dev) == before && opn2_getNumChipsObtained(dev) == obtained, "a refused chip count leaves the reported chip count unchanged");
    VASSERT(g_tap.writes == w0, "a refused chip count writes nothing to the chips");
#ifdef VERIF_IR
    VASSERT(verif_stub_hits == h0 + 1, "a refusal records an error text (setErrorString called once; its body is stubbed)");
#endif
}

extern "C" __attribute__((optnone, noinline)) void harness_numchips(void)   /* optnone: keep one call site per constant */
{
    OPN2_MIDIPlayer *dev = opn2_init(44100);
    VASSUME(dev != NULL);
    switch(nondet_uchar() % 7)
    {
    case 0: bad_chips(dev, 0); break;
    case 1: bad_chips(dev, -1); break;
    case 2: bad_chips(dev, 101); break;
    case 3: bad_chips(dev, -5); break;
    case 4: bad_chips(dev, 1000); break;
    case 5: bad_chips(dev, (int)0x80000000u); break;
    default: bad_chips(dev, 0x7fffffff); break;
    }
    VWITNESS();
}

__attribute__((optnone, noinline)) static void set_chips(OPN2_MIDIPlayer *dev, int n)
{
    int rc = opn2_setNumChips(dev, n);
    VASSERT(rc == 0, "chip counts 1..100 are accepted");
    VASSERT(opn2_getNumChips(dev) == n && opn2_getNumChipsObtained(dev) == n, "accepted chip count is reported back");
    opn2_reset(dev);
    VASSERT(opn2_getNumChips(dev) == n && opn2_getNumChipsObtained(dev) == n, "accepted chip count survives a reset");
}

extern "C" __attribute__((optnone, noinline)) void harness_numchips_ok(void)   /* optnone: keep one call site per constant */
{
    OPN2_MIDIPlayer *dev = opn2_init(44100);
    VASSUME(dev != NULL);
    switch(nondet_uchar() % 3) { case 0: set_chips(dev, 1); break; case 1: set_chips(dev, 2); break; default: set_chips(dev, 3); break; }
    VWITNESS();
}

// opn2_switchEmulator: unavailable ids are refused and change nothing (ids enumerated, see above)
__attribute__((optnone, noinline)) static void try_emulator(OPN2_MIDIPlayer *dev, int e)
{
    OPNMIDIplay *p = player_of(dev);
    OPNMIDIplay::Setup s0; unsigned chips0, chans0; int ctor0;
    snapshot(p, s0, chips0, chans0, ctor0);
    unsigned w0 = g_tap.writes, h0 = verif_stub_hits;
    bool available = (e == OPNMIDI_EMU_MAME || e == OPNMIDI_VGM_DUMPER);   // the two ids enabled in the verification build
    int rc = opn2_switchEmulator(dev, e);
    VASSERT((rc == 0) == available, "exactly the available emulator ids are accepted");
    if(rc != 0)
    {
        VASSERT(p->m_setup.emulator == s0.emulator && (int)g_tap.ctor_count == ctor0 && g_tap.writes == w0, "a refused emulator id leaves the emulator and the chips untouched");
#ifdef VERIF_IR
        VASSERT(verif_stub_hits == h0 + 1, "a refusal records an error text (setErrorString called once; its body is stubbed)");
#endif
    }
    else
        VASSERT(p->m_setup.emulator == e, "accepted emulator id is in force");
}

extern "C" __attribute__((optnone, noinline)) void harness_emulator(void)   /* optnone: keep one call site per constant */
{
    OPN2_MIDIPlayer *dev = opn2_init(44100);
    VASSUME(dev != NULL);
    switch(nondet_uchar() % 12)
    {
    case 0: try_emulator(dev, -1); break;
    case 1: try_emulator(dev, OPNMIDI_EMU_NUKED); break;          // compiled out in the verification build
    case 2: try_emulator(dev, OPNMIDI_EMU_GENS); break;
    case 3: try_emulator(dev, OPNMIDI_EMU_end); break;
    case 4: try_emulator(dev, 31); break;
    case 5: try_emulator(dev, 32 + OPNMIDI_EMU_MAME); break;      // aliases an available id if the shift wraps
    case 6: try_emulator(dev, 32 + OPNMIDI_VGM_DUMPER); break;
    case 7: try_emulator(dev, 1000); break;
    case 8: try_emulator(dev, (int)0x80000000u); break;
    case 9: try_emulator(dev, 0x7fffffff); break;
    case 10: try_emulator(dev, 64); break;
    default: try_emulator(dev, OPNMIDI_EMU_YMFM_OPNA); break;
    }
    VWITNESS();
}

// device id: accepted 0..15 stick (also across reset), others refused without effect
extern "C" void harness_devid(void)
{
    OPN2_MIDIPlayer *dev = opn2_init(44100);
    VASSUME(dev != NULL);
    OPNMIDIplay *p = player_of(dev);
    unsigned id = nondet_uint();
    unsigned char before = p->m_sysExDeviceId;
    int rc = opn2_setDeviceIdentifier(dev, id);
    VASSERT((rc == 0) == (id <= 15), "device ids 0..15 are accepted, others refused");
    VASSERT(p->m_sysExDeviceId == (rc == 0 ? id : before), "accepted id is stored, refused id changes nothing");
#ifdef WITH_RESET
    opn2_reset(dev);
    VASSERT(p->m_sysExDeviceId == (rc == 0 ? id : before), "the SysEx device id persists across opn2_reset");
#endif
    VWITNESS();
}

// LFO / chip type / volume model overrides: value (or the bank default for -1) is in force and
// stays in force across reset and re-application of the setup (the path file loads take)
extern "C" void harness_overrides(void)
{
    OPN2_MIDIPlayer *dev = opn2_init(44100);
    VASSUME(dev != NULL);
    OPNMIDIplay *p = player_of(dev);
    OPN2 &synth = *p->m_synth;
    // arbitrary bank defaults
    synth.m_insBankSetup.lfoEnable = nondet_uchar() & 1;
    synth.m_insBankSetup.lfoFrequency = nondet_uchar() & 7;
    synth.m_insBankSetup.chipType = nondet_uchar() & 1;
    synth.m_insBankSetup.volumeModel = nondet_uchar() % 5;
    int lfoEn = (int)(nondet_uchar() % 3) - 1;       // -1, 0, 1
    int lfoFr = (int)(nondet_uchar() % 9) - 1;       // -1 .. 7
    int chip = (int)(nondet_uchar() % 3) - 1;        // -1, 0, 1
    opn2_setLfoEnabled(dev, lfoEn);
    opn2_setLfoFrequency(dev, lfoFr);
    opn2_setChipType(dev, chip);
    int wantEn = lfoEn < 0 ? synth.m_insBankSetup.lfoEnable : lfoEn;
    int wantFr = lfoFr < 0 ? synth.m_insBankSetup.lfoFrequency : lfoFr;
    int wantChip = chip < 0 ? synth.m_insBankSetup.chipType : chip;
    VASSERT(opn2_getLfoEnabled(dev) == wantEn && opn2_getLfoFrequency(dev) == wantFr && opn2_getChipType(dev) == wantChip, "getters return the value set (bank default for -1)");
    VASSERT(g_tap.reg[0][0][0x22] == ((wantEn ? 8 : 0) | (wantFr & 7)), "the chip's LFO register carries the setting");
#ifdef FOLLOW
    switch(FOLLOW)                                  // one follow-up call per solver run (the obligations enumerate them)
#else
    switch(nondet_uchar() % 3)
#endif
    {
    case 0: opn2_reset(dev); break;
    case 1: p->applySetup(); break;                 // what LoadMIDI_pre/LoadBank do before/after loading
    default: opn2_setRunAtPcmRate(dev, nondet_uchar() & 1); break;
    }
    VASSERT(opn2_getLfoEnabled(dev) == wantEn && opn2_getLfoFrequency(dev) == wantFr && opn2_getChipType(dev) == wantChip, "the overrides stay in force across reset / setup re-application / rate-mode switch");
    VASSERT(g_tap.reg[0][0][0x22] == ((wantEn ? 8 : 0) | (wantFr & 7)), "the chip's LFO register still carries the setting");
    VWITNESS();
}

static int g_hook_calls;
static void hook_start(void *) { g_hook_calls++; }
static void hook_end(void *) { g_hook_calls += 100; }

// registered loop callbacks persist across resets / emulator switches / setup re-application
extern "C" void harness_hooks(void)
{
    OPN2_MIDIPlayer *dev = opn2_init(44100);
    VASSUME(dev != NULL);
    OPNMIDIplay *p = player_of(dev);
    int tag1, tag2;
    opn2_setLoopStartHook(dev, hook_start, &tag1);
    opn2_setLoopEndHook(dev, hook_end, &tag2);
#ifdef FOLLOW
    switch(FOLLOW)                                  // one follow-up call per solver run (the obligations enumerate them)
#else
    switch(nondet_uchar() % 5)
#endif
    {
    case 0: opn2_reset(dev); break;
    case 1: opn2_switchEmulator(dev, OPNMIDI_EMU_MAME); break;
    case 2: opn2_setNumChips(dev, 1); break;
    case 3: opn2_setRunAtPcmRate(dev, 1); break;
    default: opn2_setChipType(dev, 1); break;
    }
    VASSERT(p->m_sequencerInterface->onloopStart == hook_start && p->m_sequencerInterface->onloopStart_userData == &tag1,
            "the registered loop-start callback is still the one the sequencer will call");
    VASSERT(p->m_sequencerInterface->onloopEnd == hook_end && p->m_sequencerInterface->onloopEnd_userData == &tag2,
            "the registered loop-end callback is still the one the sequencer will call");
    VWITNESS();
}
