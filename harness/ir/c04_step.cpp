// C04 / C05 step harness: a CONCRETE prefix of real API calls builds one shape of the voice-allocation state
// (which lists hold which cells is then concrete for the symbolic executor), then one (or two) SYMBOLIC
// operations X (Y) are applied -- every operation of the alphabet on its own call site, with symbolic data
// arguments -- and after every call the real state is compared with
//   C04: the bookkeeping invariant INV4 (note <-> user back references, uniqueness, counters, bank pointers,
//        keyed-on <=> has a user),
//   C05: the reference model of the MIDI rules (key down / sustain pedal / sostenuto) written from the property text.
// After X the scenario releases every key and pedal and renders 30 ms: nothing may remain keyed on.
#include "player.hpp"
#include "forge.hpp"
#include <math.h>

// the same harness decides two properties; each obligation activates the assertions of one of them
#if defined(ONLY_C05)
#define A4(c, m) ((void)(c))
#else
#define A4(c, m) VASSERT(c, m)
#endif
#if defined(ONLY_C04)
#define A5(c, m) ((void)(c))
#else
#define A5(c, m) VASSERT(c, m)
#endif

#ifndef CHN
#define CHN 0           /* MIDI channel under test (0 = melodic, 9 = percussion) */
#endif
#define OCH 1           /* a second MIDI channel used by the isolation operations */
enum { K1 = 60, K2 = 35, NKEYS = 2 };

static OPN2_MIDIPlayer *g_dev;
static OPNMIDIplay *g_p;
static OPN2::Bank *g_bank[2];

// ---------------- reference model (written from the property text)
struct Model
{
    bool pedal;                 // sustain pedal of CHN is down
    bool down[NKEYS];           // key is down
    bool ped[NKEYS];            // key was released while the pedal was down and the pedal has not been released since
    bool sost[NKEYS];           // key was down when sostenuto was pressed and sostenuto has not been released since
    bool ext[NKEYS];            // percussion: key released inside the minimal drum note time, key-off is deferred
    bool young[NKEYS];          // percussion: the minimal drum note time has not yet passed
    bool odown;                 // the note on the other MIDI channel
};
static Model g_m;
static bool g_checking;       // the concrete prefix is not checked call by call (its end state is: X = a data operation)
static int ki(unsigned k) { return k == K1 ? 0 : (k == K2 ? 1 : -1); }
static bool sounding(int i) { return g_m.down[i] || g_m.ped[i] || g_m.sost[i] || g_m.ext[i]; }
static void m_release(int i)
{
    if(g_m.down[i])
    {
        g_m.down[i] = false;
        if(g_m.pedal) g_m.ped[i] = true;
    }
}
static void m_noteoff(int i)
{
    if(CHN == 9 && g_m.down[i] && g_m.young[i]) { g_m.down[i] = false; g_m.ext[i] = true; return; }
    m_release(i);
}
static void m_noteon(int i)
{
    if(g_m.ext[i]) { g_m.ext[i] = false; if(g_m.pedal) g_m.ped[i] = true; }   // a deferred release is carried out first
    m_release(i);
    g_m.down[i] = true;
    g_m.young[i] = (CHN == 9);
}

// ---------------- observation of the real state
static bool ains_in_banks(const OpnInstMeta *a)
{
    for(unsigned b = 0; b < 2; b++)
        if(g_bank[b] && a >= &g_bank[b]->ins[0] && a <= &g_bank[b]->ins[127])
            return ((const char *)a - (const char *)&g_bank[b]->ins[0]) % sizeof(OpnInstMeta) == 0;
    return false;
}

static void check(void)
{
    unsigned own[NKEYS] = {0, 0};
    unsigned oown = 0;
    const unsigned nch = g_p->m_synth->m_numChannels;
    VASSERT(nch == 6 * TAP_CHIPS, "chip channel count");
    for(unsigned c = 0; c < 6 * TAP_CHIPS; c++)
    {
        OPNMIDIplay::OpnChannel &cc = g_p->m_chipChannels[c];
        bool keyed = g_tap.keyed[c / 6][c % 6] != 0;
        A4(keyed == !cc.users.empty(), "C04: a chip channel is keyed on at the chip exactly when it has at least one user");
        for(OPNMIDIplay::OpnChannel::users_iterator u = cc.users.begin(); !u.is_end(); ++u)
        {
            OPNMIDIplay::OpnChannel::LocationData &d = u->value;
            A4(d.loc.MidCh == CHN || d.loc.MidCh == OCH, "C04: a user names a MIDI channel that played a note");
            // uniqueness inside the list
            unsigned same = 0;
            for(OPNMIDIplay::OpnChannel::users_iterator v = cc.users.begin(); !v.is_end(); ++v)
                same += (v->value.loc == d.loc) ? 1u : 0u;
            A4(same == 1, "C04: a user appears at most once per chip channel");
            if(d.sustained == OPNMIDIplay::OpnChannel::LocationData::Sustain_None)
            {
                OPNMIDIplay::MIDIchannel::notes_iterator n = g_p->m_midiChannels[d.loc.MidCh].find_activenote(d.loc.note);
                A4(!n.is_end(), "C04: every non-sustained user corresponds to a sounding note of the named MIDI channel");
                if(!n.is_end())
                    A4(n->value.phys_find(c) != NULL, "C04: the note of a non-sustained user refers back to this chip channel");
            }
            if(d.loc.MidCh == CHN)
            {
                int i = ki(d.loc.note);
                A5(i >= 0, "C05: only keys that were played own a chip channel");
                if(i >= 0 && keyed) own[i]++;
            }
            else if(keyed)
                oown++;
        }
    }
    for(unsigned mc = 0; mc < 16; mc++)
    {
        OPNMIDIplay::MIDIchannel &ch = g_p->m_midiChannels[mc];
        if(mc != CHN && mc != OCH)
        {
            A4(ch.activenotes.empty() && ch.gliding_note_count == 0 && ch.extended_note_count == 0, "C04: untouched MIDI channels hold no notes");
            continue;
        }
        unsigned glide = 0, ext = 0;
        for(OPNMIDIplay::MIDIchannel::notes_iterator n = ch.activenotes.begin(); !n.is_end(); ++n)
        {
            OPNMIDIplay::MIDIchannel::NoteInfo &ni = n->value;
            unsigned same = 0;
            for(OPNMIDIplay::MIDIchannel::notes_iterator m = ch.activenotes.begin(); !m.is_end(); ++m)
                same += (m->value.note == ni.note) ? 1u : 0u;
            A4(same == 1, "C04: a note appears at most once per MIDI channel");
            if(ni.glideRate != HUGE_VAL) glide++;
            if(ni.ttl > 0) ext++;
            VASSERT(!ni.isBlank, "the pinned instruments are not blank");
            A4(ni.ains != NULL && ains_in_banks(ni.ains), "C04: a note's instrument is one of the 128 entries of a loaded bank");
            A4(ni.chip_channels_count >= 1 && ni.chip_channels_count <= 2, "C04: a sounding note occupies one or two chip channels");
            for(unsigned k = 0; k < ni.chip_channels_count && k < 2; k++)
            {
                unsigned c = ni.chip_channels[k].chip_chan;
                A4(c < nch, "C04: a note refers only to existing chip channels");
                if(c < nch)
                {
                    OPNMIDIplay::OpnChannel::Location loc; loc.MidCh = (uint16_t)mc; loc.note = ni.note;
                    A4(!g_p->m_chipChannels[c].find_user(loc).is_end(), "C04: the chip channel of a sounding note lists that note as a user");
                }
            }
            if(mc == CHN)
            {
                int i = ki(ni.note);
                A5(i >= 0 && (g_m.down[i] || g_m.ext[i]), "C05: an active note is a key that is down (or a drum note inside its minimal time)");
            }
        }
        A4(ch.gliding_note_count == glide, "C04: gliding counter equals the number of gliding notes");
        A4(ch.extended_note_count == ext, "C04: extended-lifetime counter equals the number of notes with a pending minimal time");
    }
    for(int i = 0; i < NKEYS; i++)
        A5((own[i] > 0) == sounding(i), "C05: a (channel,key) pair owns a keyed-on chip channel exactly while key, pedal or sostenuto holds it");
    A5((oown > 0) == g_m.odown, "C05: the note on the other MIDI channel is unaffected");
}

// ---------------- operations (real API call + model transition)
enum Op { NOTEON1, NOTEON2, NOTEOFF1, NOTEOFF2, NOTEON1_V0, PED_ON, PED_OFF, SOST_ON, SOST_OFF, ALLNOTESOFF, ALLSOUNDOFF, RESETCTL,
          RESETSTATE, TICK, PATCH, BEND, VOLUME, PORTA_TIME, PORTA_ON, AFTERTOUCH, O_NOTEON, O_NOTEOFF, O_PED_ON, O_PED_OFF,
          O_ALLNOTESOFF, PANIC, OP_COUNT };

// The velocity is enumerated on separate call sites (optnone: no merging into one call with a select): the library
// tests `velocity == 0` and returns early, and an assumed-but-symbolic velocity makes that early return a feasible
// path whose state is then merged, pointer by pointer, with the state of the real note-on.
__attribute__((optnone, noinline)) static void noteon(unsigned ch, unsigned key, unsigned char v)
{
    if(!g_checking) opn2_rt_noteOn(g_dev, ch, key, 100);     // prefix: one concrete velocity
#ifdef VFIX
    else opn2_rt_noteOn(g_dev, ch, key, VFIX);               // one velocity per solver run (the obligations enumerate 1 / 64 / 127)
    (void)v;
#else
    else if(v & 1) opn2_rt_noteOn(g_dev, ch, key, 127);
    else if(v & 2) opn2_rt_noteOn(g_dev, ch, key, 64);
    else opn2_rt_noteOn(g_dev, ch, key, 1);
#endif
}

static unsigned char g_sel[2], g_v[2];
static int g_step = -1;            // -1: prefix
static void do_op(int op)
{
    unsigned char v = g_step >= 0 ? g_v[g_step & 1] : 0;
    switch(op)
    {
    case NOTEON1: noteon(CHN, K1, v); m_noteon(0); break;
    case NOTEON2: noteon(CHN, K2, v); m_noteon(1); break;
    case NOTEOFF1: opn2_rt_noteOff(g_dev, CHN, K1); m_noteoff(0); break;
    case NOTEOFF2: opn2_rt_noteOff(g_dev, CHN, K2); m_noteoff(1); break;
    case NOTEON1_V0: opn2_rt_noteOn(g_dev, CHN, K1, 0); m_noteoff(0); break;
    // control-relevant controller values are concrete (the two sides of the documented threshold 64)
    case PED_ON: opn2_rt_controllerChange(g_dev, CHN, 64, 64); g_m.pedal = true; break;
    case PED_OFF: opn2_rt_controllerChange(g_dev, CHN, 64, 63); g_m.pedal = false; g_m.ped[0] = g_m.ped[1] = false; break;
    case SOST_ON: opn2_rt_controllerChange(g_dev, CHN, 66, 64);
        for(int i = 0; i < NKEYS; i++) if(g_m.down[i]) g_m.sost[i] = true;
        break;
    case SOST_OFF: opn2_rt_controllerChange(g_dev, CHN, 66, 63); g_m.sost[0] = g_m.sost[1] = false; break;
    case ALLNOTESOFF: opn2_rt_controllerChange(g_dev, CHN, 123, v); for(int i = 0; i < NKEYS; i++) { g_m.ext[i] = false; m_release(i); } break;
    case ALLSOUNDOFF: opn2_rt_controllerChange(g_dev, CHN, 120, v); for(int i = 0; i < NKEYS; i++) { g_m.ext[i] = false; m_release(i); } break;
    case RESETCTL: opn2_rt_controllerChange(g_dev, CHN, 121, v); g_m.pedal = false;
        for(int i = 0; i < NKEYS; i++) { g_m.ped[i] = false; g_m.sost[i] = false; }
        break;
    case RESETSTATE: opn2_rt_resetState(g_dev);      // "a controller-state reset ends held notes", and turns every note off
        g_m.pedal = false; g_m.odown = false;
        for(int i = 0; i < NKEYS; i++) { g_m.down[i] = g_m.ped[i] = g_m.sost[i] = g_m.ext[i] = false; }
        break;
    case PANIC: opn2_panic(g_dev);
        g_m.odown = false;
        for(int i = 0; i < NKEYS; i++) { g_m.down[i] = g_m.ped[i] = g_m.sost[i] = g_m.ext[i] = false; }
        break;
    case TICK: g_p->TickIterators(0.03);             // 30 ms of audio (the function every audio call drives)
        for(int i = 0; i < NKEYS; i++) { g_m.young[i] = false; if(g_m.ext[i]) { g_m.ext[i] = false; if(g_m.pedal) g_m.ped[i] = true; } }
        break;
    case PATCH: opn2_rt_patchChange(g_dev, CHN, 5); break;          // no effect on sounding notes
    case BEND: opn2_rt_pitchBend(g_dev, CHN, (OPN2_UInt16)(v << 6)); break;
    case VOLUME: opn2_rt_controllerChange(g_dev, CHN, 7, v & 0x7F); break;
    case PORTA_TIME: opn2_rt_controllerChange(g_dev, CHN, 5, 40); break;
    case PORTA_ON: opn2_rt_controllerChange(g_dev, CHN, 65, 64); break;
    case AFTERTOUCH: opn2_rt_channelAfterTouch(g_dev, CHN, v & 0x7F); break;
    case O_NOTEON: noteon(OCH, K1, v); g_m.odown = true; break;
    case O_NOTEOFF: opn2_rt_noteOff(g_dev, OCH, K1); g_m.odown = false; break;
    case O_PED_ON: opn2_rt_controllerChange(g_dev, OCH, 64, 127); break;    // pedals of another channel hold nothing here
    case O_PED_OFF: opn2_rt_controllerChange(g_dev, OCH, 64, 0); opn2_rt_controllerChange(g_dev, OCH, 66, 0); break;
    case O_ALLNOTESOFF: opn2_rt_controllerChange(g_dev, OCH, 123, v); g_m.odown = false; break;
    default: break;
    }
    if(g_checking)
        check();
}

// after X every key and pedal is released and 30 ms are rendered: nothing may remain keyed on
static void release_all_and_check(void)
{
    do_op(NOTEOFF1); do_op(NOTEOFF2); do_op(O_NOTEOFF); do_op(PED_OFF); do_op(SOST_OFF); do_op(TICK);
    unsigned keyed = 0;
    for(unsigned c = 0; c < 6 * TAP_CHIPS; c++)
    {
        keyed += g_tap.keyed[c / 6][c % 6];
        A5(g_p->m_chipChannels[c].users.empty(), "C05: no chip channel has a user left once everything is released");
    }
    A5(keyed == 0, "C05: once every key and pedal is released and 30 ms have been rendered no chip channel remains keyed on");
    A4(g_p->m_midiChannels[CHN].activenotes.empty() && g_p->m_midiChannels[OCH].activenotes.empty(), "C04: no active note remains");
}

#ifndef STEPS
#define STEPS 1
#endif
#ifndef XLO
#define XLO 0
#define XHI (OP_COUNT - 1)
#endif

static void slot(int depth);
#define CASE(k) case k: do_op(k); slot(depth + 1); break;
// every operation of the alphabet on its own call site (optnone: no merging of the calls), the rest of the
// scenario runs INSIDE the branch so that the state is never merged across operations
__attribute__((optnone, noinline)) static void slot(int depth)
{
    if(depth >= STEPS)
    {
#ifdef WITH_TAIL
        release_all_and_check();
#endif
        VWITNESS();
        return;
    }
    unsigned sel = g_sel[depth & 1];
    g_step = depth;
#if XLO == XHI
    sel = XLO;                             // one operation per solver run (the obligations enumerate the alphabet)
#else
    sel = XLO + sel % (XHI - XLO + 1);     // enumeration, not an assumption: an assume would not stop the other cases from being explored
#endif
    switch(sel)
    {
    CASE(0) CASE(1) CASE(2) CASE(3) CASE(4) CASE(5) CASE(6) CASE(7) CASE(8) CASE(9) CASE(10) CASE(11) CASE(12) CASE(13)
    CASE(14) CASE(15) CASE(16) CASE(17) CASE(18) CASE(19) CASE(20) CASE(21) CASE(22) CASE(23) CASE(24) CASE(25)
    default: break;
    }
}

// fully concrete bank entry (a symbolic key-on/off time would make the allocator's channel choice symbolic)
static void pin_concrete(OPN2::Bank *bank, unsigned idx, unsigned seed, int noteOffset, unsigned drumTone)
{
    OpnInstMeta &m = bank->ins[idx];
    for(unsigned o = 0; o < 4; o++)
        for(unsigned d = 0; d < 7; d++)
            m.op[0].OPS[o].data[d] = (unsigned char)((seed * 37u + o * 11u + d * 5u) & 0x7F);
    m.op[0].fbalg = (unsigned char)(seed & 0x3F);
    m.op[0].lfosens = (unsigned char)((seed >> 1) & 0x37);
    m.op[0].noteOffset = (int16_t)noteOffset;
    m.op[1] = m.op[0];
    m.voice2_fine_tune = 0.0;
    m.flags = 0;
    m.drumTone = (uint8_t)drumTone;
    m.midiVelocityOffset = 0;
    m.soundKeyOnMs = 1200;
    m.soundKeyOffMs = 300;
}

static const int PRE[] = { PRE_LIST -1 };

extern "C" __attribute__((optnone, noinline)) void harness_step(void)
{
    // all symbolic inputs are read first, selectors before data: a sliced counterexample trace stays aligned in the replay
    g_sel[0] = nondet_uchar(); g_v[0] = nondet_uchar(); g_sel[1] = nondet_uchar(); g_v[1] = nondet_uchar();
    g_dev = opn2_init(44100);
    VASSUME(g_dev != NULL);
    g_p = player_of(g_dev);
    g_bank[0] = forge_bank(g_p, 0);
    g_bank[1] = forge_bank(g_p, OPN2::PercussionTag);
    pin_concrete(g_bank[0], 0, 1, 0, 0);
    pin_concrete(g_bank[0], 5, 2, 12, 0);
    pin_concrete(g_bank[1], K1, 3, 0, 48);
    pin_concrete(g_bank[1], K2, 4, -7, 40);
    memset(&g_m, 0, sizeof g_m);
#ifdef PROBE
    opn2_rt_noteOn(g_dev, CHN, K1, 100);
    for(unsigned c = 0; c < 12; c++)
    {
        OPNMIDIplay::OpnChannel &cc = g_p->m_chipChannels[c];
        VASSERT(cc.users.size_ == (c == 0 ? 1u : 0u), "probe size");
        VASSERT(cc.users.first_ == (c == 0 ? &cc.users.cells_[0] : (pl_cell<OPNMIDIplay::OpnChannel::LocationData> *)&cc.users.endcell_), "probe first");
        VASSERT(cc.users.first_->next == (c == 0 ? (pl_cell<OPNMIDIplay::OpnChannel::LocationData> *)&cc.users.endcell_ : NULL), "probe next");
        VASSERT(cc.users.endcell_.next == NULL, "probe endnext");
    }
    VASSERT(g_p->m_midiChannels[0].activenotes.size_ == 1, "probe notes size");
    VASSERT(g_p->m_midiChannels[0].activenotes.first_->value.chip_channels_count == 1, "probe count");
    VASSERT(g_p->m_midiChannels[0].activenotes.first_->value.chip_channels[0].chip_chan == 0, "probe chan");
    VASSERT(g_tap.keyed[0][0] == 1, "probe keyed");
    VWITNESS();
    return;
#endif
    g_checking = false;
    for(unsigned i = 0; PRE[i] >= 0; i++)
        do_op(PRE[i]);
    g_checking = true;
    slot(0);
}
