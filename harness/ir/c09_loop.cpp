// C09 kernel: the jump decision at the end of the song / loop (tail of BW_MidiSequencer::processEvents) driven through the
// real setLoopsCount / setLoopEnabled / setLoopHooksOnly / rewind on a real sequencer object whose single track has already
// delivered all of its events.  Every arrival at the song end must fire the loop-end hook once and send All-Notes-Off to all
// 16 channels; with looping enabled and count N the position jumps back to the loop start exactly N-1 times and the end of
// the song is reported after the N-th pass; count -1 never ends; looping disabled or hooks-only ends at the first arrival.
// The LoopState left behind by an earlier playback is arbitrary (symbolic): rewind() must re-arm it.
#include "verif.h"
#include <stdlib.h>
#include <string.h>
#include <string>
#include <vector>
#define BW_MidiSequencer OpnMidiSequencer
#include "midi_sequencer.hpp"
#include "stdmodels.hpp"

static unsigned g_end_hooks, g_start_hooks, g_anoff[16], g_other;
static void cb_cc(void *, uint8_t ch, uint8_t type, uint8_t val) { if(type == 123 && val == 0 && ch < 16) g_anoff[ch]++; else g_other++; }
static void cb_on(void *, uint8_t, uint8_t, uint8_t) { g_other++; }
static void cb_off(void *, uint8_t, uint8_t) { g_other++; }
static void cb_loopend(void *) { g_end_hooks++; }
static void cb_loopstart(void *) { g_start_hooks++; }

#ifndef PASSES
#define PASSES 5
#endif

extern "C" void harness_loop(void)
{
    BW_MidiSequencer seq;
    BW_MidiRtInterface itf;
    memset(&itf, 0, sizeof itf);
    itf.rt_noteOn = cb_on; itf.rt_noteOff = cb_off; itf.rt_controllerChange = cb_cc;
    itf.onloopEnd = cb_loopend; itf.onloopStart = cb_loopstart;
    seq.m_interface = &itf;

    // one track whose events have all been delivered
    BW_MidiSequencer::Position::TrackInfo ti;
    ti.delay = 0;
    ti.lastHandledEvent = -1;
    seq.m_trackBeginPosition.began = false;
    seq.m_trackBeginPosition.wait = 0.0;
    seq.m_trackBeginPosition.absTimePosition = 0.0;
    seq.m_trackBeginPosition.track.push_back(ti);
    seq.m_loopBeginPosition = seq.m_trackBeginPosition;
    seq.m_loopBeginPosition.absTimePosition = 5.0;         // distinguishes "jumped to the loop start" from "rewound"
    seq.m_postSongWaitDelay = 1.0;
    seq.m_tempo = fraction<uint64_t>(1, 2);

    // requested configuration, through the real setters (count: -1 = infinite, N >= 1 = N passes)
    int n = (int)(signed char)nondet_uchar();
    VASSUME(n == -1 || (n >= 1 && n <= 4));
    bool enabled = (nondet_uchar() & 1) != 0, hooksOnly = (nondet_uchar() & 1) != 0;
    seq.setLoopsCount(n);
    seq.setLoopEnabled(enabled);
    seq.setLoopHooksOnly(hooksOnly);

    // arbitrary left-overs of an earlier playback
    seq.m_loop.loopsLeft = (int)(signed char)nondet_uchar();
    seq.m_loop.loopsCount = (int)(signed char)nondet_uchar();
    seq.m_loop.caughtEnd = (nondet_uchar() & 1) != 0;
    seq.m_loop.temporaryBroken = (nondet_uchar() & 1) != 0;
    seq.m_atEnd = (nondet_uchar() & 1) != 0;
    seq.m_currentPosition = seq.m_trackBeginPosition;
    seq.m_currentPosition.absTimePosition = 77.0;

    seq.rewind();
    VASSERT(!seq.m_atEnd && seq.m_currentPosition.absTimePosition == 0.0, "C09: rewind returns to the start and clears the end-of-song flag");

    unsigned jumps = 0, k = 0;
    for(; k < PASSES && !seq.m_atEnd; k++)
    {
        g_end_hooks = 0; g_other = 0;
        for(unsigned c = 0; c < 16; c++) g_anoff[c] = 0;
        bool more = seq.processEvents(false);
        VASSERT(more, "C09: arriving at the end is handled");
        VASSERT(g_end_hooks == 1, "C09: the loop-end callback fires once per arrival at the loop end or song end");
        unsigned bad = 0;
        for(unsigned c = 0; c < 16; c++) bad += (g_anoff[c] != 1);
        VASSERT(bad == 0 && g_other == 0, "C09: every jump back (and the end) is preceded by exactly one All-Notes-Off on each of the 16 channels");
        if(!seq.m_atEnd)
        {
            jumps++;
            VASSERT(seq.m_currentPosition.absTimePosition == 5.0, "C09: a jump back lands on the loop start position");
        }
    }
    if(!enabled || hooksOnly)
        VASSERT(seq.m_atEnd && jumps == 0, "C09: with looping disabled (or hooks only) the song ends at the first arrival at its end");
    else if(n < 0)
        VASSERT(!seq.m_atEnd && jumps == PASSES, "C09: count -1 repeats without end");
    else
        VASSERT(seq.m_atEnd && jumps == (unsigned)(n - 1), "C09: with count N the loop body is played N times in total, then the end of song is reported");
    VWITNESS();
}
