// Shared infrastructure for harnesses that drive the real player
// (opnmidi.cpp + opnmidi_midiplay.cpp + opnmidi_opn2.cpp + ... compiled from /repo).
//
// TapChip: the verification build enables exactly two emulator ids through the repo's own
// OPNMIDI_DISABLE_* switches (MAME YM2612 and the VGM dumper that the shipped configuration
// enables); their member functions are defined here instead of linking the emulator cores:
// register writes are recorded, generated audio is arbitrary.
#ifndef VERIF_PLAYER_HPP
#define VERIF_PLAYER_HPP
#include "verif.h"
#define OPNMIDI_UNSTABLE_API
#include <stdlib.h>
#include <string.h>
#include <string>
#include "opnmidi.h"
#include "opnmidi_midiplay.hpp"
#include "opnmidi_opn2.hpp"
#include "opnmidi_private.hpp"
#include "chips/mame_opn2.h"
#include "chips/vgm_file_dumper.h"

// libstdc++ declares these two std::string members but (before C++20) expects them from
// libstdc++.so; instantiate the real template bodies so that they are part of the encoding.
template char *std::string::_M_create(unsigned long &, unsigned long);
template void std::string::_M_mutate(unsigned long, unsigned long, const char *, unsigned long);
template void std::string::_M_assign(const std::string &);
template std::string &std::string::_M_replace(unsigned long, unsigned long, const char *, unsigned long);
template std::string &std::string::_M_replace_aux(unsigned long, unsigned long, unsigned long, char);
template std::string &std::string::_M_append(const char *, unsigned long);
template void std::string::_M_erase(unsigned long, unsigned long);
template void std::string::reserve(unsigned long);

#ifndef TAP_CHIPS
#define TAP_CHIPS 2
#endif

struct TapState
{
    // key-on state per chip channel (written through register 0x28)
    unsigned char keyed[TAP_CHIPS][6];
    // last value written to the interesting registers, per chip / port
    unsigned char reg[TAP_CHIPS][2][256];
    unsigned writes;
    unsigned keyons;
    unsigned keyoffs;
    unsigned native_ticks;
    unsigned bad;          // writes addressed to a chip id outside TAP_CHIPS
    unsigned last_rate, last_clock;
    unsigned ctor_count, dtor_count;
    // log of the most recent writes (bounded)
    unsigned short log_addr[8];
    unsigned char log_val[8], log_port[8], log_chip[8];
    unsigned log_n;
};
static TapState g_tap;

static inline void tap_write(unsigned chip, unsigned port, unsigned addr, unsigned char data)
{
    g_tap.writes++;
    if(chip >= TAP_CHIPS || port > 1 || addr > 255)
    {
        g_tap.bad++;
        return;
    }
    g_tap.reg[chip][port][addr] = data;
    if(g_tap.log_n < 8)
    {
        g_tap.log_addr[g_tap.log_n] = (unsigned short)addr;
        g_tap.log_val[g_tap.log_n] = data;
        g_tap.log_port[g_tap.log_n] = (unsigned char)port;
        g_tap.log_chip[g_tap.log_n] = (unsigned char)chip;
    }
    g_tap.log_n++;
    if(addr == 0x28 && port == 0)
    {
        unsigned sel = data & 7;
        int ch = -1;
        if(sel < 3) ch = (int)sel;
        else if(sel >= 4 && sel < 7) ch = (int)sel - 1;
        if(ch >= 0)
        {
            bool on = (data & 0xF0) != 0;
            if(on) g_tap.keyons++; else g_tap.keyoffs++;
            g_tap.keyed[chip][ch] = on ? 1 : 0;
        }
    }
}

/* ---- MameOPN2 = TapChip ---- */
MameOPN2::MameOPN2(OPNFamily f) : OPNChipBaseT(f)
{
    chip = NULL;
    g_tap.ctor_count++;
    setRate(m_rate, m_clock);
}
MameOPN2::~MameOPN2() { g_tap.dtor_count++; }
void MameOPN2::setRate(uint32_t rate, uint32_t clock)
{
    OPNChipBaseT::setRate(rate, clock);
    g_tap.last_rate = rate;
    g_tap.last_clock = clock;
}
void MameOPN2::reset() { OPNChipBaseT::reset(); }
void MameOPN2::writeReg(uint32_t port, uint16_t addr, uint8_t data) { tap_write(m_id, port, addr, data); }
void MameOPN2::writePan(uint16_t, uint8_t) {}
void MameOPN2::nativePreGenerate() {}
void MameOPN2::nativeGenerate(int16_t *frame)
{
    g_tap.native_ticks++;
    frame[0] = nondet_short();
    frame[1] = nondet_short();
}
const char *MameOPN2::emulatorName() { return "tap"; }

/* ---- VGMFileDumper = TapChip (no file I/O) ---- */
VGMFileDumper::VGMFileDumper(OPNFamily f, int index, void *first)
    : OPNChipBaseBufferedT(f), m_output(NULL), m_bytes_written(0), m_samples_written(0), m_samples_loop(0),
      m_actual_rate(0), m_delay(0), m_end_caught(false), m_chip_index(index), m_first((VGMFileDumper *)first)
{
    g_tap.ctor_count++;
    setRate(m_rate, m_clock);
}
VGMFileDumper::~VGMFileDumper() { g_tap.dtor_count++; }
void VGMFileDumper::setRate(uint32_t rate, uint32_t clock) { OPNChipBaseBufferedT::setRate(rate, clock); m_actual_rate = rate; }
void VGMFileDumper::reset() { OPNChipBaseBufferedT::reset(); }
void VGMFileDumper::writeReg(uint32_t port, uint16_t addr, uint8_t data) { tap_write(m_id, port, addr, data); }
void VGMFileDumper::writePan(uint16_t, uint8_t) {}
void VGMFileDumper::nativeGenerateN(int16_t *output, size_t frames) { memset(output, 0, frames * 2 * sizeof(int16_t)); }
const char *VGMFileDumper::emulatorName() { return "tap-vgm"; }
void VGMFileDumper::writeLoopStart() {}
void VGMFileDumper::writeLoopEnd() {}
void VGMFileDumper::loopStartHook(void *self) { (void)self; }
void VGMFileDumper::loopEndHook(void *self) { (void)self; }

// counter incremented by every function body that an obligation replaces by a no-op stub
// (ir2c option stub_funcs, e.g. OPNMIDIplay::setErrorString whose std::string assignment is costly)
extern "C" { extern unsigned verif_stub_hits; }
#if !defined(VERIF_IR)
unsigned verif_stub_hits;
#endif

static inline OPNMIDIplay *player_of(OPN2_MIDIPlayer *dev)
{
    return reinterpret_cast<OPNMIDIplay *>(dev->opn2_midiPlayer);
}

#endif
