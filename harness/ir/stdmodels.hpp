// Definitions of the few libstdc++ functions that live in libstdc++.so (not in headers), written
// against the real node types: textbook doubly-linked-list hooks, and red-black-tree primitives
// WITHOUT recolouring/rotation (search-tree order and iteration are preserved, balance is irrelevant
// for correctness of find/insert/erase/iterate).
#ifndef VERIF_STDMODELS_HPP
#define VERIF_STDMODELS_HPP
#include <list>
#include <map>
#include <set>

namespace std { namespace __detail {
void _List_node_base::_M_hook(_List_node_base *const position) _GLIBCXX_USE_NOEXCEPT
{
    this->_M_next = position;
    this->_M_prev = position->_M_prev;
    position->_M_prev->_M_next = this;
    position->_M_prev = this;
}
void _List_node_base::_M_unhook() _GLIBCXX_USE_NOEXCEPT
{
    _List_node_base *const next_node = this->_M_next;
    _List_node_base *const prev_node = this->_M_prev;
    prev_node->_M_next = next_node;
    next_node->_M_prev = prev_node;
}
} }

namespace std {
_Rb_tree_node_base *_Rb_tree_increment(_Rb_tree_node_base *x) throw()
{
    if(x->_M_right != 0)
    {
        x = x->_M_right;
        while(x->_M_left != 0)
            x = x->_M_left;
    }
    else
    {
        _Rb_tree_node_base *y = x->_M_parent;
        while(x == y->_M_right)
        {
            x = y;
            y = y->_M_parent;
        }
        if(x->_M_right != y)
            x = y;
    }
    return x;
}
const _Rb_tree_node_base *_Rb_tree_increment(const _Rb_tree_node_base *x) throw()
{
    return _Rb_tree_increment(const_cast<_Rb_tree_node_base *>(x));
}
_Rb_tree_node_base *_Rb_tree_decrement(_Rb_tree_node_base *x) throw()
{
    if(x->_M_color == _S_red && x->_M_parent->_M_parent == x)
        x = x->_M_right;
    else if(x->_M_left != 0)
    {
        _Rb_tree_node_base *y = x->_M_left;
        while(y->_M_right != 0)
            y = y->_M_right;
        x = y;
    }
    else
    {
        _Rb_tree_node_base *y = x->_M_parent;
        while(x == y->_M_left)
        {
            x = y;
            y = y->_M_parent;
        }
        x = y;
    }
    return x;
}
const _Rb_tree_node_base *_Rb_tree_decrement(const _Rb_tree_node_base *x) throw()
{
    return _Rb_tree_decrement(const_cast<_Rb_tree_node_base *>(x));
}
// plain BST insertion below parent p (no rebalancing); header bookkeeping as in libstdc++
void _Rb_tree_insert_and_rebalance(const bool insert_left, _Rb_tree_node_base *x, _Rb_tree_node_base *p, _Rb_tree_node_base &header) throw()
{
    x->_M_parent = p;
    x->_M_left = 0;
    x->_M_right = 0;
    x->_M_color = _S_black;      // never red: _Rb_tree_decrement recognises the header by (red && parent->parent == self)
    if(insert_left)
    {
        p->_M_left = x;          // also makes leftmost = x when p is the header
        if(p == &header)
        {
            header._M_parent = x;
            header._M_right = x;
        }
        else if(p == header._M_left)
            header._M_left = x;
    }
    else
    {
        p->_M_right = x;
        if(p == header._M_right)
            header._M_right = x;
    }
}
}
#endif
