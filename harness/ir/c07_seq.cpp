// C07 kernels of the MIDI sequencer (real BW_MidiSequencer members from src/midi_sequencer_impl.hpp, compiled in
// opnmidi_sequencer.cpp; private members reached with -fno-access-control).
//
//  harness_sort   MidiTrackRow::sortEvents on successive rows of ONE track sharing the sorter's note-state table:
//                 the order inside the last row must be the one the property states
//                 ("controllers and program changes before note-ons, note-offs of already sounding notes before
//                  note-ons", everything else in file order, nothing lost or duplicated).
//  harness_handle BW_MidiSequencer::handleEvent: one symbolic event on a sequencer object with symbolic track/solo/
//                 channel masks: the call made on the synthesizer interface equals the reference dispatch
//                 (gating: disabled / non-solo tracks and disabled channels contribute no notes, track-0 tempo
//                 events always apply).
#include "verif.h"
#include <stdlib.h>
#include <string.h>
#include <string>
#include <vector>
// the library renames the class (ABI collisions with libADLMIDI); the harness must use the same name
#define BW_MidiSequencer OpnMidiSequencer
#include "midi_sequencer.hpp"
#include "stdmodels.hpp"

typedef BW_MidiSequencer::MidiEvent Ev;
typedef BW_MidiSequencer::MidiTrackRow Row;

// the row shape is concrete per obligation (event kinds), channels / keys / values are symbolic
enum Kind { K_ON, K_OFF, K_CC, K_PC, K_BEND, K_CAT, K_TOUCH, K_META_TEMPO, K_SYSEX, K_MARKER, K_EOT };

__attribute__((optnone, noinline)) static Ev mk(int kind, unsigned ch, unsigned d0, unsigned d1, unsigned tag)
{
    Ev e;
    e.channel = ch;
    e.absPosition = tag;          // identifies the event after sorting (the sorter does not touch it)
    switch(kind)
    {
    case K_ON: e.type = Ev::T_NOTEON; e.data.push_back((uint8_t)d0); e.data.push_back((uint8_t)d1); break;
    case K_OFF: e.type = Ev::T_NOTEOFF; e.data.push_back((uint8_t)d0); e.data.push_back((uint8_t)d1); break;
    case K_CC: e.type = Ev::T_CTRLCHANGE; e.data.push_back((uint8_t)d0); e.data.push_back((uint8_t)d1); break;
    case K_PC: e.type = Ev::T_PATCHCHANGE; e.data.push_back((uint8_t)d0); break;
    case K_BEND: e.type = Ev::T_WHEEL; e.data.push_back((uint8_t)d0); e.data.push_back((uint8_t)d1); break;
    case K_CAT: e.type = Ev::T_CHANAFTTOUCH; e.data.push_back((uint8_t)d0); break;
    case K_TOUCH: e.type = Ev::T_NOTETOUCH; e.data.push_back((uint8_t)d0); e.data.push_back((uint8_t)d1); break;
    case K_META_TEMPO: e.type = Ev::T_SPECIAL; e.subtype = Ev::ST_TEMPOCHANGE; e.channel = 0;
        e.data.push_back(7); e.data.push_back((uint8_t)d0); e.data.push_back((uint8_t)d1); break;
    case K_SYSEX: e.type = Ev::T_SYSEX; e.channel = 0; e.data.push_back(0xF0); e.data.push_back((uint8_t)d0); e.data.push_back(0xF7); break;
    case K_MARKER: e.type = Ev::T_SPECIAL; e.subtype = Ev::ST_MARKER; e.channel = 0; e.data.push_back((uint8_t)d0); break;
    default: e.type = Ev::T_SPECIAL; e.subtype = Ev::ST_ENDTRACK; e.channel = 0; break;
    }
    return e;
}

#ifndef ROW0
#define ROW0 K_ON
#endif
#ifndef ROW1
#define ROW1 K_OFF
#endif
#ifndef ROW2
#define ROW2 K_ON, K_OFF
#endif
#ifndef KEY0
#define KEY0 60
#endif
#ifndef KEY1
#define KEY1 60
#endif
#ifndef KEY2
#define KEY2 60, 60
#endif
enum { MAXEV = 4 };
// plain 2-D tables (a table of pointers to rows becomes an llvm.load.relative lookup)
static const int R[3][MAXEV + 1] = { { ROW0, -1 }, { ROW1, -1 }, { ROW2, -1 } };
static const int KY[3][MAXEV + 1] = { { KEY0, -1 }, { KEY1, -1 }, { KEY2, -1 } };

struct Sym { unsigned ch, key; };

// reference: is (ch,key) sounding after the rows seen so far?  (one flag per symbolic note, compared by value)
static bool same(const Sym &a, const Sym &b) { return a.ch == b.ch && a.key == b.key; }

extern "C" void harness_sort(void)
{
    static bool states[16 * 255];
    memset(states, 0, sizeof states);
    Row rows[3];
    Sym sym[3][MAXEV];
    int kinds[3][MAXEV];
    unsigned n[3] = {0, 0, 0};
    // Which events name the same key is CONCRETE per obligation (keys 60/61/...), the MIDI channel they share is
    // symbolic: with symbolic-but-unequal notes every `same note?` test of the sorter becomes a symbolic branch that
    // erases/appends vector elements, and the merged vectors carry if-then-else end pointers (no verdict in 800 s).
#ifdef CHV
    unsigned ch = CHV;      // see obligations/C07.py: with a symbolic channel the note-state index is symbolic and the std::set / vector
                            // surgery of the sorter runs under symbolic guards (no verdict in 800 s)
#else
    unsigned ch = nondet_uchar();
    VASSUME(ch < 16);
#endif
    for(unsigned r = 0; r < 3; r++)
        for(unsigned i = 0; R[r][i] >= 0 && i < MAXEV; i++)
        {
            unsigned key = (unsigned)KY[r][i], v = nondet_uchar();
            VASSUME(v >= 1 && v < 128);
            sym[r][i].ch = ch; sym[r][i].key = key; kinds[r][i] = R[r][i];
            rows[r].events.push_back(mk(R[r][i], ch, key, v, r * 16 + i));
            n[r]++;
        }
    rows[0].sortEvents(states);
    rows[1].sortEvents(states);

    // reference state of every symbolic note of row 2 before row 2 (file order inside rows 0 and 1: offs act first
    // when the note was sounding, which cannot be the case in row 0 of a fresh track)
    // -- only the shapes used by the obligations are modelled: rows 0 and 1 hold at most one note event each
    bool on2[MAXEV];
    for(unsigned i = 0; i < n[2]; i++)
    {
        bool s = false;
        for(unsigned r = 0; r < 2; r++)
            for(unsigned j = 0; j < n[r]; j++)
            {
                if(kinds[r][j] == K_ON && same(sym[r][j], sym[2][i])) s = true;
                if(kinds[r][j] == K_OFF && same(sym[r][j], sym[2][i])) s = false;
            }
        on2[i] = s;
    }

    rows[2].sortEvents(states);

    // (1) permutation: every event of the row exactly once
    VASSERT(rows[2].events.size() == n[2], "C07: sorting a row neither drops nor duplicates events");
    unsigned pos[MAXEV];
    for(unsigned i = 0; i < n[2]; i++)
    {
        unsigned cnt = 0;
        pos[i] = 0;
        for(unsigned k = 0; k < rows[2].events.size() && k < MAXEV; k++)
            if(rows[2].events[k].absPosition == 2 * 16 + i) { cnt++; pos[i] = k; }
        VASSERT(cnt == 1, "C07: every event of the row is delivered exactly once");
    }
    // (2) order rules of the property
    for(unsigned i = 0; i < n[2]; i++)
        for(unsigned j = 0; j < n[2]; j++)
        {
            if(i == j) continue;
            int ki = kinds[2][i], kj = kinds[2][j];
            bool ctl_i = (ki == K_CC || ki == K_PC || ki == K_BEND || ki == K_CAT);
            if(ctl_i && kj == K_ON)
                VASSERT(pos[i] < pos[j], "C07: controllers and program changes come before note-ons of the same tick");
            if(ki == K_OFF && kj == K_ON && on2[i] && !same(sym[2][i], sym[2][j]))
                VASSERT(pos[i] < pos[j], "C07: a note-off of an already sounding note comes before note-ons of the same tick");
            if(ki == K_OFF && kj == K_ON && same(sym[2][i], sym[2][j]) && n[2] == 2)
            {
                // a note-on and a note-off of the same key on one tick: the off ends the PREVIOUS note when there is
                // one, otherwise it belongs to this (zero-length) note and must follow its note-on
                if(on2[i]) VASSERT(pos[i] < pos[j], "C07: the note-off of a sounding note precedes the re-strike on the same tick");
                else VASSERT(pos[j] < pos[i], "C07: the note-off of a zero-length note follows its own note-on (file order)");
            }
            // same class: file order is kept
            if(i < j && ((ki == kj) || (ctl_i && (kj == K_CC || kj == K_PC || kj == K_BEND || kj == K_CAT))))
                if(!(ki == K_OFF) && !(ki == K_ON))
                    VASSERT(pos[i] < pos[j], "C07: events of one class keep their file order");
        }
    VWITNESS();
}

/* ------------------------------------------------------------------ handleEvent */
struct Call { unsigned fn, ch, a, b, n; };
static Call g_call[4];
static unsigned g_ncalls;
static void rec(unsigned fn, unsigned ch, unsigned a, unsigned b)
{
    if(g_ncalls < 4) { g_call[g_ncalls].fn = fn; g_call[g_ncalls].ch = ch; g_call[g_ncalls].a = a; g_call[g_ncalls].b = b; }
    g_ncalls++;
}
enum { F_ON = 1, F_OFF, F_OFFV, F_TOUCH, F_CAT, F_CC, F_PC, F_BEND, F_SYSEX, F_META, F_RAWEV };
static void cb_on(void *, uint8_t c, uint8_t n, uint8_t v) { rec(F_ON, c, n, v); }
static void cb_off(void *, uint8_t c, uint8_t n) { rec(F_OFF, c, n, 0); }
static void cb_touch(void *, uint8_t c, uint8_t n, uint8_t v) { rec(F_TOUCH, c, n, v); }
static void cb_cat(void *, uint8_t c, uint8_t v) { rec(F_CAT, c, v, 0); }
static void cb_cc(void *, uint8_t c, uint8_t t, uint8_t v) { rec(F_CC, c, t, v); }
static void cb_pc(void *, uint8_t c, uint8_t p) { rec(F_PC, c, p, 0); }
static void cb_bend(void *, uint8_t c, uint8_t msb, uint8_t lsb) { rec(F_BEND, c, msb, lsb); }
static void cb_sysex(void *, const uint8_t *m, size_t n) { rec(F_SYSEX, 0, n ? m[0] : 0, (unsigned)n); }

#ifndef HKIND
#define HKIND K_ON
#endif
#ifndef NTRACKS
#define NTRACKS 3
#endif

extern "C" void harness_handle(void)
{
    BW_MidiSequencer seq;
    BW_MidiRtInterface itf;
    memset(&itf, 0, sizeof itf);
    itf.rt_noteOn = cb_on; itf.rt_noteOff = cb_off; itf.rt_noteAfterTouch = cb_touch; itf.rt_channelAfterTouch = cb_cat;
    itf.rt_controllerChange = cb_cc; itf.rt_patchChange = cb_pc; itf.rt_pitchBend = cb_bend; itf.rt_systemExclusive = cb_sysex;
    seq.m_interface = &itf;
    seq.m_trackDisable.resize(NTRACKS);
    bool dis[NTRACKS];
    for(unsigned t = 0; t < NTRACKS; t++) { dis[t] = (nondet_uchar() & 1) != 0; seq.m_trackDisable[t] = dis[t]; }
    unsigned solo = nondet_uchar();          // NTRACKS.. = none
    seq.m_trackSolo = solo < NTRACKS ? (size_t)solo : ~(size_t)0;
    bool chdis[16];
    for(unsigned c = 0; c < 16; c++) { chdis[c] = (nondet_uchar() & 1) != 0; seq.m_channelDisable[c] = chdis[c]; }
    unsigned fmt = nondet_uchar();
    VASSUME(fmt <= 2);
    seq.m_smfFormat = fmt;
    seq.m_tempo = fraction<uint64_t>(1, 2);
    seq.m_invDeltaTicks = fraction<uint64_t>(1, 480000000ul);

    unsigned ch = nondet_uchar(), d0 = nondet_uchar(), d1 = nondet_uchar();
    VASSUME(ch < 16 && d0 < 128 && d1 < 128);
    if(HKIND == K_META_TEMPO) { d0 = 0x21; d1 = 0x20; }   // the tempo value is concrete: fraction<>::Optim is Euclid's loop
    Ev e = mk(HKIND, ch, d0, d1, 0);
    // the track index is enumerated on call sites (an index into std::vector<bool> is a shift/mask computation)
    unsigned track = nondet_uchar() % NTRACKS;
    int32_t status = 0;
    g_ncalls = 0;
    fraction<uint64_t> tempo0 = seq.m_tempo;
    switch(track)
    {
    case 0: seq.handleEvent(0, e, status); break;
    case 1: seq.handleEvent(1, e, status); break;
    default: seq.handleEvent(2, e, status); break;
    }

    bool timing0 = (track == 0 && fmt < 2 && HKIND == K_META_TEMPO);
    bool gated = !timing0 && ((solo < NTRACKS && track != solo) || dis[track]);
    bool tempo_changed = !(seq.m_tempo.nom() == tempo0.nom() && seq.m_tempo.denom() == tempo0.denom());
    if(gated)
    {
        VASSERT(g_ncalls == 0, "C07: a disabled or non-solo track delivers nothing to the synthesizer");
        VASSERT(!tempo_changed, "C07: a disabled or non-solo track (other than track-0 timing) does not change the tempo");
    }
    else switch(HKIND)
    {
    case K_ON:
        if(chdis[ch]) VASSERT(g_ncalls == 0, "C07: a disabled channel contributes no notes");
        else VASSERT(g_ncalls == 1 && g_call[0].fn == F_ON && g_call[0].ch == ch && g_call[0].a == d0 && g_call[0].b == d1, "C07: note-on is delivered once with its channel, key and velocity");
        break;
    case K_OFF:
        if(chdis[ch]) VASSERT(g_ncalls == 0, "C07: a disabled channel contributes no note-offs");
        else VASSERT(g_ncalls == 1 && g_call[0].fn == F_OFF && g_call[0].ch == ch && g_call[0].a == d0, "C07: note-off is delivered once with its channel and key");
        break;
    case K_CC: VASSERT(g_ncalls == 1 && g_call[0].fn == F_CC && g_call[0].ch == ch && g_call[0].a == d0 && g_call[0].b == d1, "C07: controller change delivered once, number and value in order"); break;
    case K_PC: VASSERT(g_ncalls == 1 && g_call[0].fn == F_PC && g_call[0].ch == ch && g_call[0].a == d0, "C07: program change delivered once"); break;
    case K_BEND: VASSERT(g_ncalls == 1 && g_call[0].fn == F_BEND && g_call[0].ch == ch && g_call[0].a == d1 && g_call[0].b == d0, "C07: pitch bend delivered once, MSB = second data byte, LSB = first"); break;
    case K_CAT: VASSERT(g_ncalls == 1 && g_call[0].fn == F_CAT && g_call[0].ch == ch && g_call[0].a == d0, "C07: channel after-touch delivered once"); break;
    case K_TOUCH: VASSERT(g_ncalls == 1 && g_call[0].fn == F_TOUCH && g_call[0].ch == ch && g_call[0].a == d0 && g_call[0].b == d1, "C07: note after-touch delivered once"); break;
    case K_SYSEX: VASSERT(g_ncalls == 1 && g_call[0].fn == F_SYSEX && g_call[0].a == 0xF0 && g_call[0].b == 3, "C07: SysEx delivered once with its whole payload"); break;
    case K_META_TEMPO:
        VASSERT(g_ncalls == 0, "C07: a tempo event makes no synthesizer call");
        // tempo = microseconds per quarter (24-bit big endian) * inverse ticks
        VASSERT(tempo_changed, "C07: a tempo event of an enabled track (or of track 0) takes effect");
        break;
    default:
        VASSERT(g_ncalls == 0, "C07: markers / end-of-track make no synthesizer call");
        if(HKIND == K_EOT) VASSERT(status == -1, "C07: end of track is reported to the scheduler");
        break;
    }
    VWITNESS();
}
