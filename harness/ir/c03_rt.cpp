// C03.rt: k symbolic real-time API calls on the real initial state are memory-safe,
// throw nothing, abort nothing and terminate (unwinding assertions).
#include "player.hpp"
#include "forge.hpp"

#ifndef STEPS
#define STEPS 2
#endif

// channels are enumerated concretely (a symbolic index into the array of 1.2 KiB MIDIchannel
// structs turns every later access into a 16-way case split); the values cover the guard's
// edge cases: first, percussion, last, == channel count, and far out of range.
static unsigned char pick_channel(void)
{
#ifdef CHAN_SYMBOLIC
    return nondet_uchar();
#endif
    unsigned s = nondet_uchar();
    switch(s & 7)
    {
    case 0: return 0;
    case 1: return 9;
    case 2: return 15;
    case 3: return 16;
    case 4: return 17;
    case 5: return 255;
    case 6: return 25;
    default: return 1;
    }
}

static void step(OPN2_MIDIPlayer *dev)
{
    unsigned sel = nondet_uchar();
    unsigned char ch = pick_channel();
    unsigned char a = nondet_uchar(), b = nondet_uchar();
    VASSUME(sel < 13);
#ifdef SEL_LO
    // concrete enumeration (an assume would not stop symbolic execution from exploring the other cases)
    sel = SEL_LO + (sel % (SEL_HI - SEL_LO + 1));
#endif
    switch(sel)
    {
    case 0: opn2_rt_noteOn(dev, ch, a, b); break;
    case 1: opn2_rt_noteOff(dev, ch, a); break;
    case 2: opn2_rt_noteAfterTouch(dev, ch, a, b); break;
    case 3: opn2_rt_channelAfterTouch(dev, ch, a); break;
    case 4: opn2_rt_controllerChange(dev, ch, a, b); break;
    case 5: opn2_rt_patchChange(dev, ch, a); break;
    case 6: opn2_rt_pitchBend(dev, ch, (OPN2_UInt16)(a | (b << 8))); break;
    case 7: opn2_rt_pitchBendML(dev, ch, a, b); break;
    case 8: opn2_rt_bankChangeLSB(dev, ch, a); break;
    case 9: opn2_rt_bankChangeMSB(dev, ch, a); break;
    case 10: opn2_rt_bankChange(dev, ch, (OPN2_SInt16)(a | (b << 8))); break;
    case 11: opn2_panic(dev); break;
    default: opn2_rt_resetState(dev); break;
    }
}

extern "C" void harness_rt(void)
{
    OPN2_MIDIPlayer *dev = opn2_init(44100);
    VASSUME(dev != NULL);
    OPNMIDIplay *p = player_of(dev);
    forge_bank(p, 0);                               // melodic bank 0: 128 arbitrary instruments
    forge_bank(p, OPN2::PercussionTag);             // percussion bank 0
    for(int i = 0; i < STEPS; i++)
        step(dev);
    VWITNESS();
#ifdef WITH_CLOSE
    opn2_close(dev);
#endif
}
