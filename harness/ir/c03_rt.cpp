// C03.rt: k symbolic real-time API calls on the real initial state are memory-safe,
// throw nothing, abort nothing and terminate (unwinding assertions).
#include "player.hpp"
#include "forge.hpp"

#ifndef STEPS
#define STEPS 2
#endif

// Channels are enumerated concretely and the API call is made INSIDE each branch: a symbolic
// index (even an if-then-else of constants merged after a switch) into the array of 1.2 KiB
// MIDIchannel structs turns every later access into a 16-way case split over the whole array.
// The values cover the guard's edge cases: first, percussion, last, == channel count, out of range.
// optnone keeps one call site per concrete argument (see step() below)
__attribute__((optnone, noinline)) static void step_ch(OPN2_MIDIPlayer *dev, unsigned char ch)
{
    unsigned sel = nondet_uchar();
    unsigned char a = nondet_uchar(), b = nondet_uchar();
    VASSUME(sel < 13);
#ifdef SEL_LO
    // concrete enumeration (an assume would not stop symbolic execution from exploring the other cases)
    sel = SEL_LO + (sel % (SEL_HI - SEL_LO + 1));
#endif
#ifdef NO_PANIC
    if(sel == 11) sel = 12;   // opn2_panic (16 x 128 note-offs) has its own obligation
#endif
    switch(sel)
    {
    case 0:
        // keys are enumerated so that a percussion channel selects a pinned (single-voice) entry
        if(a & 1) opn2_rt_noteOn(dev, ch, 60, b); else opn2_rt_noteOn(dev, ch, 35, b);
        break;
    case 1: opn2_rt_noteOff(dev, ch, a); break;
    case 2: opn2_rt_noteAfterTouch(dev, ch, a, b); break;
    case 3: opn2_rt_channelAfterTouch(dev, ch, a); break;
    case 4: opn2_rt_controllerChange(dev, ch, a, b); break;
    case 5:
        // programs are enumerated likewise (every program value is covered by C03.rt.guard.patchChange)
        if(a & 1) opn2_rt_patchChange(dev, ch, 0); else opn2_rt_patchChange(dev, ch, 5);
        break;
    case 6: opn2_rt_pitchBend(dev, ch, (OPN2_UInt16)(a | (b << 8))); break;
    case 7: opn2_rt_pitchBendML(dev, ch, a, b); break;
    case 8: opn2_rt_bankChangeLSB(dev, ch, a); break;
    case 9: opn2_rt_bankChangeMSB(dev, ch, a); break;
    case 10: opn2_rt_bankChange(dev, ch, (OPN2_SInt16)(a | (b << 8))); break;
    case 11: opn2_panic(dev); break;
    default: opn2_rt_resetState(dev); break;
    }
}

// optnone: LLVM would otherwise sink the four calls into one call with a phi of the constants
__attribute__((optnone, noinline)) static void step(OPN2_MIDIPlayer *dev)
{
#ifdef CHAN_SYMBOLIC
    step_ch(dev, nondet_uchar());
#elif defined(CH_ONLY)
    step_ch(dev, CH_ONLY);             // one channel value per obligation (the quick tier runs them in parallel)
#else
    switch(nondet_uchar() & 3)
    {
    case 0: step_ch(dev, 0); break;
    case 1: step_ch(dev, 9); break;
    case 2: step_ch(dev, 16); break;   // == channel count: must wrap to 0
    default: step_ch(dev, 255); break; // wraps to 15
    }
#endif
}

extern "C" void harness_rt(void)
{
    OPN2_MIDIPlayer *dev = opn2_init(44100);
    VASSUME(dev != NULL);
    OPNMIDIplay *p = player_of(dev);
#ifndef NO_BANKS
    OPN2::Bank *mel = forge_bank(p, 0);                      // melodic bank 0
    OPN2::Bank *per = forge_bank(p, OPN2::PercussionTag);    // percussion bank 0
    pin_instrument(mel, 0, 1, 0); pin_instrument(mel, 5, 2, 12);   // concrete timbres, symbolic meta data
    pin_instrument(per, 35, 3, 0); pin_instrument(per, 60, 4, -7);
#endif
    for(int i = 0; i < STEPS; i++)
        step(dev);
    VWITNESS();
#ifdef WITH_CLOSE
    opn2_close(dev);
#endif
}
