/* E-C harnesses on the real src/wopn/wopn_file.c: whole bank files with CONCRETE bank counts
 * (MEL, PER given per obligation) so that every allocation size and loop bound is concrete; the
 * version code, chip flags, bank meta data and every instrument byte are symbolic.
 *   harness_load   (C02): every image of exactly the declared size or shorter: defined outcome, no over-read
 *   harness_accept (C15): load(save(load(b), loaded.version)) == load(b), save stays inside the calculated size
 */
#include "verif.h"
#include <stdlib.h>
#include <string.h>
#include "wopn/wopn_file.c"

#ifndef MEL
#define MEL 0
#endif
#ifndef PER
#define PER 0
#endif
#ifndef V2
#define V2 1            /* 1: "WOPN2-B2NK" magic + version code, 0: version-1 magic */
#endif
#define INS_SZ (V2 ? 69 : 65)
#define HDR (V2 ? 18 : 16)
#define META (V2 ? 34 * (MEL + PER) : 0)
#define FULL (HDR + META + INS_SZ * 128 * (MEL + PER))
#ifndef LEN
#define LEN FULL        /* length handed to the loader (<= FULL) */
#endif

static unsigned char img[FULL > 0 ? FULL : 1];

static void build_image(void)
{
    unsigned i, p = 0;
    static const char m1[11] = "WOPN2-BANK", m2[11] = "WOPN2-B2NK";
    for(i = 0; i < 11; i++)
        img[p++] = (unsigned char)(V2 ? m2[i] : m1[i]);
    if(V2)
    {
        img[p++] = nondet_uchar();     /* version code, little endian: symbolic */
        img[p++] = nondet_uchar();
    }
    img[p++] = 0; img[p++] = MEL;      /* bank counts: concrete */
    img[p++] = 0; img[p++] = PER;
    img[p++] = nondet_uchar();         /* LFO / chip flags */
    for(; p < FULL; p++)
        img[p] = nondet_uchar();
}

void harness_load(void)
{
    int err = 1234;
    WOPNFile *f;
    unsigned char *exact;
    unsigned i;
    build_image();
    exact = (unsigned char *)malloc(LEN);     /* exact-size block of concrete size */
    VASSUME(exact != 0);
    for(i = 0; i < LEN; i++)
        exact[i] = img[i];
    f = WOPN_LoadBankFromMem(exact, LEN, &err);
    if(f == 0)
        VASSERT(err == WOPN_ERR_BAD_MAGIC || err == WOPN_ERR_UNEXPECTED_ENDING || err == WOPN_ERR_NEWER_VERSION,
                "rejected image reports a defined error code");
    else
    {
        VASSERT(err == 1234, "accepted image leaves the error slot alone");
        VASSERT(LEN == FULL, "an image shorter than its declared content is never accepted");
        VASSERT(f->version <= 2, "accepted version is a known one");
        /* necessary for save(load(b), loaded.version) to reproduce the value: the writer maps version 0 to the latest */
        VASSERT(f->version != 0, "accepted version is one the writer reproduces (0 means 'latest' on save)");
        VASSERT(f->banks_count_melodic == (MEL ? MEL : 1) && f->banks_count_percussion == (PER ? PER : 1), "bank counts as declared (0 => one blank bank)");
    }
    VWITNESS();
}

void harness_accept(void)
{
    int err = 0, rc;
    WOPNFile *f, *g;
    size_t need;
    unsigned char *out;
    unsigned b, k;
    build_image();
    f = WOPN_LoadBankFromMem(img, FULL, &err);
    VASSUME(f != 0);
    need = WOPN_CalculateBankFileSize(f, f->version);
    VASSERT(need <= 19 + 34 * 2 + 69 * 128 * 2, "calculated size is bounded by the bank counts");
    out = (unsigned char *)malloc(19 + 34 * 2 + 69 * 128 * 2);
    VASSUME(out != 0);
    rc = WOPN_SaveBankToMem(f, out, need, f->version, 0);
    VASSERT(rc == WOPN_ERR_OK, "saving the loaded bank into the calculated size succeeds");
    g = WOPN_LoadBankFromMem(out, need, &err);
    VASSERT(g != 0, "the saved image loads");
    if(g != 0)
    {
        VASSERT(g->version == f->version, "version survives save+load");
        VASSERT(g->lfo_freq == f->lfo_freq && g->chip_type == f->chip_type, "LFO and chip type survive");
        VASSERT(g->banks_count_melodic == f->banks_count_melodic && g->banks_count_percussion == f->banks_count_percussion, "bank counts survive");
        /* "for every bank / instrument" = symbolic probe (bank index is 0: counts are <= 1) */
        k = nondet_uchar();
        VASSUME(k < 128);
        b = 0;
        VASSERT(g->banks_melodic[b].ins[k].note_offset == f->banks_melodic[b].ins[k].note_offset &&
                g->banks_melodic[b].ins[k].fbalg == f->banks_melodic[b].ins[k].fbalg &&
                g->banks_melodic[b].ins[k].inst_flags == f->banks_melodic[b].ins[k].inst_flags &&
                g->banks_melodic[b].ins[k].delay_on_ms == f->banks_melodic[b].ins[k].delay_on_ms &&
                g->banks_melodic[b].ins[k].operators[3].ssgeg_90 == f->banks_melodic[b].ins[k].operators[3].ssgeg_90,
                "melodic instrument k survives (probe fields)");
        VASSERT(g->banks_melodic[b].bank_midi_lsb == f->banks_melodic[b].bank_midi_lsb &&
                g->banks_melodic[b].bank_midi_msb == f->banks_melodic[b].bank_midi_msb, "bank numbers survive");
    }
    VWITNESS();
}
