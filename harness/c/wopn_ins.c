/* E-C harnesses on the real src/wopn/wopn_file.c: instrument-level obligations
 * of C15 (round trip, idempotence, frame) and C02 (parser stays inside the
 * block).  The repo file is #included so its static functions are the ones
 * encoded; nothing in it is modified. */
#include "verif.h"
#include <stdlib.h>
#include <string.h>
#include "wopn/wopn_file.c"

#ifndef VERSION
#define VERSION 2
#endif
#ifndef DELAYS
#define DELAYS 1
#endif
#define BLOCK ((VERSION >= 2 && DELAYS) ? 69 : 65)

static unsigned char *sym_block(unsigned n)
{
    unsigned i;
    unsigned char *b = (unsigned char *)malloc(n);
    VASSUME(b != 0);
    for(i = 0; i < n; i++)
        b[i] = nondet_uchar();
    return b;
}

/* an arbitrary instrument value inside the format's field ranges */
static void sym_instrument(WOPNInstrument *x)
{
    int i;
    for(i = 0; i < 32; i++)
        x->inst_name[i] = (char)nondet_uchar();
    /* names are NUL terminated inside the 32 bytes and zero padded (what the
     * loader and calloc+strcpy produce) */
    VASSUME(x->inst_name[31] == 0);
    for(i = 0; i < 31; i++)
        VASSUME(x->inst_name[i] != 0 || x->inst_name[i + 1] == 0);
    x->note_offset = nondet_short();
    x->midi_velocity_offset = 0; /* reserved by the format */
    x->percussion_key_number = nondet_uchar();
    x->inst_flags = nondet_uchar();
    VASSUME((x->inst_flags & ~WOPN_Ins_IsBlank) == 0);
    x->fbalg = nondet_uchar();
    x->lfosens = nondet_uchar();
    for(i = 0; i < 4; i++)
    {
        x->operators[i].dtfm_30 = nondet_uchar();
        x->operators[i].level_40 = nondet_uchar();
        x->operators[i].rsatk_50 = nondet_uchar();
        x->operators[i].amdecay1_60 = nondet_uchar();
        x->operators[i].decay2_70 = nondet_uchar();
        x->operators[i].susrel_80 = nondet_uchar();
        x->operators[i].ssgeg_90 = nondet_uchar();
    }
    x->delay_on_ms = nondet_ushort();
    x->delay_off_ms = nondet_ushort();
}

static int same_core(const WOPNInstrument *a, const WOPNInstrument *b)
{
    int i, ok = 1;
    for(i = 0; i < 32; i++)
        ok &= a->inst_name[i] == b->inst_name[i];
    ok &= a->note_offset == b->note_offset;
    ok &= a->midi_velocity_offset == b->midi_velocity_offset;
    ok &= a->percussion_key_number == b->percussion_key_number;
    ok &= a->fbalg == b->fbalg;
    ok &= a->lfosens == b->lfosens;
    for(i = 0; i < 4; i++)
    {
        ok &= a->operators[i].dtfm_30 == b->operators[i].dtfm_30;
        ok &= a->operators[i].level_40 == b->operators[i].level_40;
        ok &= a->operators[i].rsatk_50 == b->operators[i].rsatk_50;
        ok &= a->operators[i].amdecay1_60 == b->operators[i].amdecay1_60;
        ok &= a->operators[i].decay2_70 == b->operators[i].decay2_70;
        ok &= a->operators[i].susrel_80 == b->operators[i].susrel_80;
        ok &= a->operators[i].ssgeg_90 == b->operators[i].ssgeg_90;
    }
    return ok;
}

/* C15.ins.rt: parse(write(x)) == x; write stays inside an exact-size block */
void harness_rt(void)
{
    WOPNInstrument x, y;
    unsigned char *blk = (unsigned char *)malloc(BLOCK);
    VASSUME(blk != 0);
    sym_instrument(&x);
#if VERSION >= 2 && DELAYS
    /* version 2 encodes "blank" as both delays == 0 (documented rule) */
    VASSUME(((x.inst_flags & WOPN_Ins_IsBlank) != 0) == (x.delay_on_ms == 0 && x.delay_off_ms == 0));
#endif
    memset(&y, 0x5A, sizeof(y));
    WOPN_writeInstrument(&x, blk, VERSION, DELAYS);
    WOPN_parseInstrument(&y, blk, VERSION, DELAYS);
    VASSERT(same_core(&x, &y), "instrument fields survive write+parse");
#if VERSION >= 2 && DELAYS
    VASSERT(x.delay_on_ms == y.delay_on_ms && x.delay_off_ms == y.delay_off_ms, "v2 delays survive");
    VASSERT(x.inst_flags == y.inst_flags, "v2 blank flag survives");
#else
    /* v1 / OPNI carry neither delays nor flags: nothing is demanded of them */
#endif
    VWITNESS();
    free(blk);
}

/* C15.ins.idem: parse(write(parse(b))) == parse(b) for every block b */
void harness_idem(void)
{
    WOPNInstrument y, z;
    unsigned char *b = sym_block(BLOCK);
    unsigned char *b2 = (unsigned char *)malloc(BLOCK);
    VASSUME(b2 != 0);
    memset(&y, 0, sizeof(y));
    memset(&z, 0, sizeof(z));
    WOPN_parseInstrument(&y, b, VERSION, DELAYS);
    VASSERT(y.inst_name[31] == 0, "parsed name is NUL terminated");
    WOPN_writeInstrument(&y, b2, VERSION, DELAYS);
    WOPN_parseInstrument(&z, b2, VERSION, DELAYS);
    VASSERT(same_core(&y, &z), "second parse equals first (fields)");
    VASSERT(y.inst_flags == z.inst_flags && y.delay_on_ms == z.delay_on_ms &&
            y.delay_off_ms == z.delay_off_ms, "second parse equals first (flags, delays)");
    VWITNESS();
    free(b); free(b2);
}

/* C02.ins: the parser reads only inside an exact-size block, for every
 * version value the two loaders can pass (0,1,2) */
void harness_parse_frame(void)
{
    WOPNInstrument y;
    unsigned short version = nondet_ushort();
    unsigned char delays = nondet_uchar();
    unsigned n;
    unsigned char *b;
    VASSUME(version <= 2);
    VASSUME(delays <= 1);
    n = (version >= 2 && delays) ? 69 : 65;
    b = sym_block(n);
    WOPN_parseInstrument(&y, b, version, delays);
    VASSERT(y.inst_name[31] == 0, "name terminated");
    VASSERT(y.midi_velocity_offset == 0, "reserved field cleared");
    VASSERT((y.inst_flags & ~WOPN_Ins_IsBlank) == 0, "only the blank flag can be set");
    VWITNESS();
    free(b);
}
