/* C14 (Nuked OPN2 core, src/chips/nuked/ym3438.c #included): one clock step of a chip instance is a function of
 * that instance's own state only.  Two instances a, b in the same arbitrary state; a is clocked; then ANOTHER
 * instance is created and configured the way NukedOPN2::NukedOPN2 / setRate do it (chip type, reset, register
 * writes); then b is clocked: outputs and the complete state of a and b must be equal.  A process-wide variable
 * that the interfering calls change and the clock reads shows up as a difference. */
#include "verif.h"
#include <string.h>
#include <stddef.h>
#include "chips/nuked/ym3438.c"

#ifndef VERIF_SET_TYPE
#define VERIF_SET_TYPE(c, t) OPN2_SetChipType(c, t)
#endif
#ifndef CYC
#define CYC 0
#endif

static ym3438_t g_a, g_b, g_other;

/* index fields within the ranges the code itself maintains (representation invariant of a chip state) */
static void assume_state(ym3438_t *c)
{
    unsigned i;
    VASSUME(c->cycles == CYC);
    VASSUME(c->channel == c->cycles % 6);          /* maintained by OPN2_Clock: channel = cycles % 6 */
    VASSUME(c->eg_cycle < 16);
    for(i = 0; i < 24; i++)
        VASSUME(c->eg_state[i] < 4);
    VASSUME(c->mode_test_21[0] < 2);
    VASSUME(c->lfo_freq < 8 && c->eg_timer_low_lock < 4);
    VASSUME(c->address < 0x200);
    VASSUME(c->pg_block < 8 && c->pg_kcode < 32 && c->lfo_pm < 32);
    for(i = 0; i < 24; i++)
        VASSUME(c->dt[i] < 8 && c->multi[i] < 16 && c->ks[i] < 4);
    for(i = 0; i < 6; i++)
        VASSUME(c->pms[i] < 8 && c->ams[i] < 4 && c->connect[i] < 8 && c->fb[i] < 8 && c->block[i] < 8 && c->block_3ch[i] < 8 && c->kcode[i] < 32 && c->kcode_3ch[i] < 32);
}

void harness_frame(void)
{
    static ym3438_t seed;
    unsigned char *sp = (unsigned char *)&seed;
    unsigned long i;
    Bit16s oa[2], ob[2];
    Bit32u own = (nondet_uchar() & 1) ? ym3438_mode_readmode : ym3438_mode_ym2612;
    Bit32u other_type = (nondet_uchar() & 1) ? ym3438_mode_readmode : ym3438_mode_ym2612;
    /* every byte of the chip state in front of the buffered-write queue is arbitrary (read through nondet so that a
       counterexample can be replayed natively); the queue itself is not read by OPN2_Clock and stays zero */
    for(i = 0; i < offsetof(ym3438_t, writebuf_samplecnt); i++)
        sp[i] = nondet_uchar();
    assume_state(&seed);
    g_a = seed;
    g_b = seed;
    /* the observed instances were created with chip type `own` */
    VERIF_SET_TYPE(&g_a, own);
    VERIF_SET_TYPE(&g_b, own);
    OPN2_Clock(&g_a, oa);
    /* --- another instance is created in between (NukedOPN2 constructor + setRate + a register write) */
    VERIF_SET_TYPE(&g_other, other_type);
    OPN2_Reset(&g_other, 44100, 7670454);
    OPN2_Write(&g_other, nondet_uchar() & 3, nondet_uchar());
    /* --- */
    OPN2_Clock(&g_b, ob);
    VASSERT(oa[0] == ob[0] && oa[1] == ob[1], "the clocked output does not depend on other instances");
    VASSERT(g_a.mol == g_b.mol && g_a.mor == g_b.mor, "DAC output latches equal");
    VASSERT(g_a.status == g_b.status && g_a.status_time == g_b.status_time && g_a.cycles == g_b.cycles && g_a.channel == g_b.channel, "status / cycle counters equal");
    VASSERT(g_a.ch_lock == g_b.ch_lock && g_a.ch_read == g_b.ch_read && g_a.eg_timer == g_b.eg_timer && g_a.lfo_cnt == g_b.lfo_cnt, "channel / EG / LFO state equal");
    {
        unsigned k = nondet_uchar() % 24;          /* one symbolic probe slot */
        VASSERT(g_a.pg_phase[k] == g_b.pg_phase[k] && g_a.eg_level[k] == g_b.eg_level[k] && g_a.eg_out[k] == g_b.eg_out[k] &&
                g_a.fm_out[k] == g_b.fm_out[k] && g_a.eg_state[k] == g_b.eg_state[k], "per-slot state equal");
    }
    VWITNESS();
}
