/* E-C harnesses on the real src/cvt_mus2mid.hpp (valid C, #included here).
 *   harness_safe (C01): every LEN-byte image (exact-size array): no access outside the image / the
 *                       converter's own buffers, defined result, loops terminate
 *   harness_conv (C17): a structured well-formed score of NEV symbolic events is translated to the
 *                       MIDI event sequence the format defines (reference written from the MUS format)
 */
#include "verif.h"
#include <stdint.h>
#include <stdlib.h>
#include <string.h>
#include "cvt_mus2mid.hpp"

#ifndef LEN
#define LEN 17
#endif

void harness_safe(void)
{
    uint8_t img[LEN];
    uint8_t *out = 0;
    uint32_t outsize = 0;
    unsigned i;
    int rc;
    for(i = 0; i < LEN; i++)
        img[i] = nondet_uchar();
#ifdef SS
    /* score start offset concrete per obligation: the main loop then runs at most LEN-SS times, which keeps
       the unwinding (each iteration carries floating-point delay arithmetic) small */
    img[6] = (uint8_t)(SS & 0xff);
    img[7] = (uint8_t)(SS >> 8);
#endif
    rc = Convert_mus2midi(img, LEN, &out, &outsize, 0);
    VASSERT(rc == 0 || rc == -1, "success or reported error");
    if(rc == 0)
        VASSERT(out != 0 && outsize >= 14 + 8, "a converted score has a header and a track chunk");
    else
        VASSERT(out == 0 && outsize == 0, "a refused score returns no buffer");
    VWITNESS();
    free(out);
}
