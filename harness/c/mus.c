/* E-C harnesses on the real src/cvt_mus2mid.hpp (valid C, #included here).
 *   harness_safe (C01): every LEN-byte image (exact-size array): no access outside the image / the
 *                       converter's own buffers, defined result, loops terminate
 *   harness_conv (C17): a structured well-formed score of NEV symbolic events is translated to the
 *                       MIDI event sequence the format defines (reference written from the MUS format)
 */
#include "verif.h"
#include <stdint.h>
#include <stdlib.h>
#include <string.h>
#include "cvt_mus2mid.hpp"

#ifndef LEN
#define LEN 17
#endif

void harness_safe(void)
{
    uint8_t img[LEN];
    uint8_t *out = 0;
    uint32_t outsize = 0;
    unsigned i;
    int rc;
    for(i = 0; i < LEN; i++)
        img[i] = nondet_uchar();
#ifdef SS
    /* score start offset concrete per obligation: the main loop then runs at most LEN-SS times, which keeps
       the unwinding (each iteration carries floating-point delay arithmetic) small */
    img[6] = (uint8_t)(SS & 0xff);
    img[7] = (uint8_t)(SS >> 8);
#endif
    rc = Convert_mus2midi(img, LEN, &out, &outsize, 0);
    VASSERT(rc == 0 || rc == -1, "success or reported error");
    if(rc == 0)
        VASSERT(out != 0 && outsize >= 14 + 8, "a converted score has a header and a track chunk");
    else
        VASSERT(out == 0 && outsize == 0, "a refused score returns no buffer");
    VWITNESS();
    free(out);
}

/* ------------------------------------------------------------------------------------------------
 * C17: a structured, well-formed MUS score of two events + END is translated to the MIDI events the
 * format defines.  Event TYPES, the channel class of the first event (0..14 symbolic or 15 = percussion)
 * and whether the second event uses the same channel are concrete per obligation (they fix every
 * offset); channel numbers, keys, volumes, controller numbers/values and the delay are symbolic.
 * Event types: 0 release, 1 play, 5 play with volume byte, 2 pitch wheel, 6 program change (controller 0),
 * 4 controller change (number CTL concrete, value symbolic), 3 system event (controller SYS concrete). */
#ifndef T1
#define T1 5
#endif
#ifndef T2
#define T2 1
#endif
#ifndef C1_IS_15
#define C1_IS_15 0
#endif
#ifndef SAME
#define SAME 1
#endif
#ifndef SYS
#define SYS 11
#endif
#ifndef KEY1
#define KEY1 72
#endif
#ifndef KEY5
#define KEY5 60
#endif
#ifndef CTL
#define CTL 3
#endif
#ifndef DELAYHI
#define DELAYHI 0
#endif
#ifndef DELAY
#define DELAY 100
#endif

static const uint8_t ctl_map[10] = { 0, 0, 0x01, 0x07, 0x0A, 0x0B, 0x5B, 0x5D, 0x40, 0x43 };   /* MUS controller -> MIDI controller */

static const uint8_t sys_map[5] = { 0x78, 0x7B, 0x7E, 0x7F, 0x79 };                            /* MUS system event 10..14 -> MIDI channel-mode controller */

struct ev { uint8_t ch, a, b; };

static unsigned put_event(uint8_t *p, int type, const struct ev *e, int last)
{
    unsigned n = 0;
    int t = (type == 5) ? 1 : (type == 6) ? 4 : type;
    p[n++] = (uint8_t)((last ? 0x80 : 0) | (t << 4) | e->ch);
    switch(type)
    {
    case 0: p[n++] = e->a & 127; break;
    case 1: p[n++] = KEY1; break;                 /* key concrete: the converter branches on bit 7 of this byte */
    case 5: p[n++] = 128 | KEY5; p[n++] = e->b & 127; break;      /* key concrete: the converter branches on bit 7 of this byte */
    case 2: p[n++] = e->a; break;
    case 3: p[n++] = SYS; break;                  /* system event: ONE data byte (controller 10..14) */
    case 6: p[n++] = 0; p[n++] = e->a & 127; break;
    default: p[n++] = CTL; p[n++] = e->b & 127; break;             /* controller number concrete (the converter branches on it) */
    }
    return n;
}

/* expected MIDI bytes for one event on MIDI channel mch; *vol is the remembered volume of that channel */
static unsigned expect_event(uint8_t *q, int type, const struct ev *e, unsigned mch, uint8_t *vol)
{
    unsigned n = 0;
    switch(type)
    {
    case 0: q[n++] = 0x80 | mch; q[n++] = e->a & 127; q[n++] = 0x40; break;
    case 1: q[n++] = 0x90 | mch; q[n++] = KEY1; q[n++] = *vol; break;
    case 5: *vol = e->b & 127; q[n++] = 0x90 | mch; q[n++] = KEY5; q[n++] = *vol; break;
    case 2: q[n++] = 0xE0 | mch; q[n++] = 0; q[n++] = (e->a >> 1) & 127; break;   /* MSB = upper 7 bits (LSB not required by the property) */
    case 6: q[n++] = 0xC0 | mch; q[n++] = e->a & 127; break;
    case 3: q[n++] = 0xB0 | mch; q[n++] = sys_map[SYS - 10]; q[n++] = (SYS == 12) ? 2 + 1 : 0; break;   /* valueless channel-mode message (mono: channel count + 1) */
    default: q[n++] = 0xB0 | mch; q[n++] = ctl_map[CTL]; q[n++] = e->b & 127; break;
    }
    return n;
}

static void conv_case(unsigned c1, unsigned c2)
{
    uint8_t img[14 + 3 + 2 + 3 + 1] = { 0 };      /* (no memset: CBMC's array_replace model loses the concrete bytes) */
    uint8_t want[64];
    struct ev e1, e2;
    uint8_t *out = 0;
    uint32_t outsize = 0;
    unsigned p = 14, w = 0, i, mch1, mch2;
    uint8_t delay = DELAY;                        /* concrete: the converter scales delays in floating point, a symbolic delay makes the length of the delta symbolic */
    uint8_t vol1 = 0x40, vol2 = 0x40;
    int rc;
    e1.ch = (uint8_t)c1; e1.a = nondet_uchar(); e1.b = nondet_uchar();
    e2.ch = (uint8_t)c2; e2.a = nondet_uchar(); e2.b = nondet_uchar();
    img[0] = 'M'; img[1] = 'U'; img[2] = 'S'; img[3] = 0x1A;
    p += put_event(img + p, T1, &e1, 1);          /* first event carries a delay */
    if(DELAYHI) img[p++] = 128 | DELAYHI;         /* multi-byte delay: 7 bits per byte, most significant first */
    img[p++] = delay;
    p += put_event(img + p, T2, &e2, 0);
    img[p++] = 0x60;                              /* END */
    img[4] = (uint8_t)(p - 14); img[5] = 0;       /* score length */
    img[6] = 14; img[7] = 0;                      /* score start */
    img[8] = 2; img[9] = 0;                       /* primary channels */
    rc = Convert_mus2midi(img, p, &out, &outsize, 0);
    VASSERT(rc == 0 && out != 0, "a well-formed score converts");
    if(rc != 0 || !out) return;
    /* expected track after header, MTrk, tempo and percussion volume: the events.  Reference channel numbering:
       MUS 15 -> MIDI 9; every other channel gets the next free MIDI channel (skipping 9) at its first use, where the
       converter also emits a channel-volume initialisation (B<ch> 07 64, ignored by the property but part of the layout) */
    {
        int map[16], next = 0, k;
        for(k = 0; k < 16; k++) map[k] = -1;
        map[15] = 9;
#define DELTA_AND_FIRST_USE(delta, ch) do { if((delta) > 127) want[w++] = 128 | ((delta) >> 7); want[w++] = (delta) & 127; if(map[ch] < 0) { want[w++] = 0xB0 | next; want[w++] = 0x07; want[w++] = 100; want[w++] = 0; map[ch] = next++; if(next == 9) next++; } } while(0)
        DELTA_AND_FIRST_USE(0, c1);
        mch1 = (unsigned)map[c1];
        w += expect_event(want + w, T1, &e1, mch1, &vol1);
        DELTA_AND_FIRST_USE(DELAYHI * 128u + delay, c2);   /* MUS ticks are MIDI ticks: the delta is the delay as a variable-length quantity */
        mch2 = (unsigned)map[c2];
        VASSERT(c1 == 15 || mch1 == 0, "reference: first melodic channel is MIDI channel 0");
        VASSERT(c1 == c2 || c1 == 15 || mch2 == 1, "reference: second melodic channel is MIDI channel 1");
        w += expect_event(want + w, T2, &e2, mch2, c1 == c2 ? &vol1 : &vol2);
        DELTA_AND_FIRST_USE(0, 0);                    /* the END event byte 0x60 names MUS channel 0 */
        want[w++] = 0xFF; want[w++] = 0x2F; want[w++] = 0;   /* END -> End of Track */
    }
    VASSERT(out[0] == 'M' && out[1] == 'T' && out[2] == 'h' && out[3] == 'd' && out[9] == 0 && out[11] == 1, "format-0 header with one track");
    {
        /* tick rate: division / (tempo read big-endian, as the sequencer reads it) within 2.5 % of 140 Hz */
        unsigned long division = ((unsigned long)out[12] << 8) | out[13];
        unsigned long tempo = ((unsigned long)out[26] << 16) | ((unsigned long)out[27] << 8) | out[28];
        VASSERT(out[23] == 0xFF && out[24] == 0x51 && out[25] == 0x03, "tempo event first");
        /* ticks per second = division * 1e6 / tempo ; |x - 140| <= 3.5 */
        VASSERT(division * 1000000ul * 2 >= 273ul * tempo && division * 1000000ul * 2 <= 287ul * tempo, "tick rate within 2.5 % of 140 Hz");
    }
    for(i = 0; i < w; i++)
        VASSERT(out[33 + i] == want[i], "event bytes equal the translation the MUS format defines");
    VASSERT(outsize == 33 + w, "nothing follows End of Track");
    VWITNESS();
    free(out);
}

/* channel numbers are enumerated on concrete copies (a symbolic channel makes the converter's "first use of
 * this channel" test, and with it every output offset, symbolic) */
void harness_conv(void)
{
    unsigned sel = C1_IS_15 ? 15 : (nondet_uchar() % 15), c;
    for(c = 0; c < 16; c++)
        if(c == sel)
            conv_case(c, SAME ? c : (c + 7) % 15 == c ? (c + 8) % 15 : (c + 7) % 15);
}
