/* E-C harnesses on the real src/wopn/wopn_file.c: single-instrument (OPNI) files.
 *   harness_load   (C02): every N-byte buffer: defined result, no access outside the buffer
 *   harness_accept (C15): every accepted buffer: load(save(load(b))) == load(b)
 *   harness_rt     (C15): every instrument value: save into the calculated size, reload, equal
 *   harness_small  (C15): a too-small destination is refused and not overrun
 */
#include "verif.h"
#include <stdlib.h>
#include <string.h>
#include "wopn/wopn_file.c"

#ifndef N
#define N 79
#endif
#ifndef VERSION
#define VERSION 2
#endif

static int same_ins(const WOPNInstrument *a, const WOPNInstrument *b)
{
    int i, ok = 1;
    for(i = 0; i < 32; i++)
        ok &= a->inst_name[i] == b->inst_name[i];
    ok &= a->note_offset == b->note_offset;
    ok &= a->midi_velocity_offset == b->midi_velocity_offset;
    ok &= a->percussion_key_number == b->percussion_key_number;
    ok &= a->fbalg == b->fbalg;
    ok &= a->lfosens == b->lfosens;
    for(i = 0; i < 4; i++)
    {
        ok &= a->operators[i].dtfm_30 == b->operators[i].dtfm_30;
        ok &= a->operators[i].level_40 == b->operators[i].level_40;
        ok &= a->operators[i].rsatk_50 == b->operators[i].rsatk_50;
        ok &= a->operators[i].amdecay1_60 == b->operators[i].amdecay1_60;
        ok &= a->operators[i].decay2_70 == b->operators[i].decay2_70;
        ok &= a->operators[i].susrel_80 == b->operators[i].susrel_80;
        ok &= a->operators[i].ssgeg_90 == b->operators[i].ssgeg_90;
    }
    return ok;
}

static void sym_ins(WOPNInstrument *x)
{
    int i;
    for(i = 0; i < 32; i++)
        x->inst_name[i] = (char)nondet_uchar();
    VASSUME(x->inst_name[31] == 0);
    for(i = 0; i < 31; i++)
        VASSUME(x->inst_name[i] != 0 || x->inst_name[i + 1] == 0);
    x->note_offset = nondet_short();
    x->midi_velocity_offset = 0;
    x->percussion_key_number = nondet_uchar();
    x->inst_flags = 0;            /* an OPNI file carries no flags and no delays */
    x->fbalg = nondet_uchar();
    x->lfosens = nondet_uchar();
    for(i = 0; i < 4; i++)
    {
        x->operators[i].dtfm_30 = nondet_uchar();
        x->operators[i].level_40 = nondet_uchar();
        x->operators[i].rsatk_50 = nondet_uchar();
        x->operators[i].amdecay1_60 = nondet_uchar();
        x->operators[i].decay2_70 = nondet_uchar();
        x->operators[i].susrel_80 = nondet_uchar();
        x->operators[i].ssgeg_90 = nondet_uchar();
    }
    x->delay_on_ms = 0;
    x->delay_off_ms = 0;
}

/* C02: loader on an exact-size buffer of N symbolic bytes */
void harness_load(void)
{
    OPNIFile f;
#if N > 0
    unsigned char buf[N];
    unsigned i;
    for(i = 0; i < N; i++)
        buf[i] = nondet_uchar();
#else
    unsigned char buf[1];
#endif
    int rc;
    memset(&f, 0, sizeof f);
    rc = WOPN_LoadInstFromMem(&f, buf, N);
    VASSERT(rc == WOPN_ERR_OK || rc == WOPN_ERR_BAD_MAGIC || rc == WOPN_ERR_UNEXPECTED_ENDING ||
            rc == WOPN_ERR_NEWER_VERSION, "result is success or a defined error code");
    if(rc == WOPN_ERR_OK)
    {
        VASSERT(N >= 77, "a file shorter than magic+flag+instrument is never accepted");
        VASSERT(f.version <= 2, "accepted version is a known one");
        VASSERT(f.inst.inst_name[31] == 0, "loaded name is terminated");
    }
    VASSERT(WOPN_LoadInstFromMem(&f, NULL, N) == WOPN_ERR_NULL_POINTER, "NULL block is refused");
    VWITNESS();
}

/* C15: for every accepted byte string, save-then-load of the loaded value is the identity */
void harness_accept(void)
{
    OPNIFile f, g;
    unsigned char buf[N], out[80];
    unsigned i;
    size_t need;
    int rc;
    for(i = 0; i < N; i++)
        buf[i] = nondet_uchar();
    memset(&f, 0, sizeof f);
    memset(&g, 0, sizeof g);
    rc = WOPN_LoadInstFromMem(&f, buf, N);
    VASSUME(rc == WOPN_ERR_OK);
    need = WOPN_CalculateInstFileSize(&f, f.version);
    VASSERT(need <= sizeof out, "calculated size is at most 79");
    rc = WOPN_SaveInstToMem(&f, out, need, f.version);
    VASSERT(rc == WOPN_ERR_OK, "saving the loaded value into the calculated size succeeds");
    rc = WOPN_LoadInstFromMem(&g, out, need);
    VASSERT(rc == WOPN_ERR_OK, "the saved image loads");
    VASSERT(g.version == f.version, "version survives save+load");
    VASSERT(g.is_drum == f.is_drum, "drum flag survives");
    VASSERT(same_ins(&f.inst, &g.inst), "instrument survives");
    VWITNESS();
}

#define NEED ((VERSION == 1) ? 77 : 79)

/* C15: every value saves into exactly the calculated size and reloads equal */
void harness_rt(void)
{
    OPNIFile f, g;
    unsigned char out[NEED];     /* exact size: one byte more written is a bounds failure */
    int rc;
    memset(&g, 0x5A, sizeof g);
    f.version = nondet_ushort();
    f.is_drum = nondet_uchar();
    sym_ins(&f.inst);
    VASSERT(WOPN_CalculateInstFileSize(&f, VERSION) == NEED, "size calculator");
    rc = WOPN_SaveInstToMem(&f, out, NEED, VERSION);
    VASSERT(rc == WOPN_ERR_OK, "save into the calculated size succeeds");
    rc = WOPN_LoadInstFromMem(&g, out, NEED);
    VASSERT(rc == WOPN_ERR_OK, "reload succeeds");
    VASSERT(g.version == ((VERSION == 0) ? 2 : VERSION), "reloaded version is the one written");
    VASSERT(g.is_drum == f.is_drum, "drum flag round-trips");
    VASSERT(same_ins(&f.inst, &g.inst), "instrument round-trips");
    VWITNESS();
}

/* C15: destination smaller than needed: refused, and nothing beyond `length` is written */
void harness_small(void)
{
    OPNIFile f;
    unsigned char out[NEED];
    unsigned length = nondet_uint(), probe = nondet_uint();
    unsigned char before;
    int rc;
    VASSUME(length < NEED);
    VASSUME(probe < NEED && probe >= length);
    f.version = VERSION;
    f.is_drum = nondet_uchar();
    sym_ins(&f.inst);
    before = out[probe];
    rc = WOPN_SaveInstToMem(&f, out, length, VERSION);
    VASSERT(rc == WOPN_ERR_UNEXPECTED_ENDING, "too-small destination is refused with an error");
    VASSERT(out[probe] == before, "no byte at or beyond the given length is written");
    VWITNESS();
}
