/* E-C harness on the real bank-file walkers WOPN_LoadBankFromMem / WOPN_SaveBankToMem /
 * WOPN_CalculateBankFileSize of src/wopn/wopn_file.c, compiled on their own (goto-cc
 * --export-file-local-symbols) with the two leaf functions WOPN_parseInstrument /
 * WOPN_writeInstrument cut out (goto-instrument --remove-function-body) and replaced by the
 * obligation stubs below.  The leaves themselves are decided by the C15.ins.* / C02.ins.*
 * obligations; the stubs ASSERT the leaves' preconditions at every call (the exact expected
 * offset, the block inside the buffer) and transfer three probe fields, so that the 256-iteration
 * instrument loops cost nothing and offset/stride/guard errors of the walkers surface.
 *
 * Bank counts MEL, PER are concrete per obligation; version code, flags, names, probe bytes symbolic.
 */
#include "verif.h"
#include <stdlib.h>
#include <string.h>
#include "wopn/wopn_file.h"

#ifndef MEL
#define MEL 1
#endif
#ifndef PER
#define PER 1
#endif
#ifndef V2
#define V2 1
#endif
#define INS_SZ (V2 ? 69 : 65)
#define HDR (V2 ? 18 : 16)
#define META (V2 ? 34 * (MEL + PER) : 0)
#define FULL (HDR + META + INS_SZ * 128 * (MEL + PER))
#define EMEL (MEL ? MEL : 1)
#define EPER (PER ? PER : 1)
#define OUTMAX (18 + 34 * (EMEL + EPER) + 69 * 128 * (EMEL + EPER))

static unsigned char img[FULL];
static unsigned char out[OUTMAX];

/* ghost state of the stubs */
static const unsigned char *g_base;      /* start of the buffer being parsed / written */
static size_t g_len;                     /* its length */
static size_t g_first;                   /* expected offset of instrument 0 */
static unsigned g_stride;                /* expected instrument size */
static unsigned g_calls;                 /* instruments seen so far in this pass */

void __CPROVER_file_local_wopn_file_c_WOPN_parseInstrument(WOPNInstrument *ins, uint8_t *cursor, uint16_t version, uint8_t has_sounding_delays)
{
    size_t off = (size_t)(cursor - g_base);
    __CPROVER_assert(off == g_first + (size_t)g_calls * g_stride, "PROP: loader hands instrument k the block at header + k*size");
    __CPROVER_assert(off + g_stride <= g_len, "PROP: instrument block lies inside the given buffer");
    __CPROVER_assert(has_sounding_delays == 1, "PROP: bank files carry delays");
    ins->fbalg = cursor[35];
    ins->percussion_key_number = cursor[34];
    ins->note_offset = (int16_t)(cursor[32] * 256 + cursor[33]);
    ins->inst_flags = 0;
    (void)version;
    g_calls++;
}

void __CPROVER_file_local_wopn_file_c_WOPN_writeInstrument(WOPNInstrument *ins, uint8_t *cursor, uint16_t version, uint8_t has_sounding_delays)
{
    size_t off = (size_t)(cursor - g_base);
    __CPROVER_assert(off == g_first + (size_t)g_calls * g_stride, "PROP: writer puts instrument k at header + k*size");
    __CPROVER_assert(off + g_stride <= g_len, "PROP: written instrument block lies inside the given destination length");
    __CPROVER_assert(has_sounding_delays == 1, "PROP: bank files carry delays");
    cursor[35] = ins->fbalg;
    cursor[34] = ins->percussion_key_number;
    cursor[32] = (uint8_t)((uint16_t)ins->note_offset >> 8);
    cursor[33] = (uint8_t)ins->note_offset;
    (void)version;
    g_calls++;
}

static void build_image(void)
{
    unsigned i, p = 0;
    static const char m1[11] = "WOPN2-BANK", m2[11] = "WOPN2-B2NK";
    for(i = 0; i < 11; i++)
        img[p++] = (unsigned char)(V2 ? m2[i] : m1[i]);
    if(V2)
    {
#ifdef VCODE
        img[p++] = (unsigned char)(VCODE & 0xff);   /* version code concrete per obligation: every */
        img[p++] = (unsigned char)(VCODE >> 8);     /* offset of the walkers is then concrete      */
#else
        img[p++] = nondet_uchar();
        img[p++] = nondet_uchar();
#endif
    }
    img[p++] = 0; img[p++] = MEL;
    img[p++] = 0; img[p++] = PER;
    img[p++] = nondet_uchar();
    /* bank meta data (names, LSB/MSB) symbolic; instrument bytes stay unconstrained (static storage is
       zero for CBMC, so write the probe bytes of every instrument explicitly) */
    for(i = 0; i < (unsigned)META; i++)
        img[p++] = nondet_uchar();
    for(i = 0; i < 128u * (MEL + PER); i++)
    {
        img[p + 32] = nondet_uchar(); img[p + 33] = nondet_uchar(); img[p + 34] = nondet_uchar(); img[p + 35] = nondet_uchar();
        p += INS_SZ;
    }
}

void harness_accept(void)
{
    int err = 0, rc;
    WOPNFile *f, *g;
    size_t need;
    unsigned k;
    uint16_t ver;
    build_image();

    g_base = img; g_len = FULL; g_first = HDR + META; g_stride = INS_SZ; g_calls = 0;
    f = WOPN_LoadBankFromMem(img, FULL, &err);
    VASSUME(f != 0);
    __CPROVER_assert(g_calls == 128u * (MEL + PER), "PROP: loader parses 128 instruments per declared bank");
    ver = f->version;
    __CPROVER_assert(ver <= 2, "PROP: accepted version is known");

    need = WOPN_CalculateBankFileSize(f, ver);
    __CPROVER_assert(need <= OUTMAX, "PROP: calculated size bounded by the bank counts");
    /* layout the writer must follow for the version it is asked to write (0 = latest = 2) */
    {
        unsigned v2w = (ver == 0 || ver >= 2);
        g_base = out; g_len = need; g_stride = v2w ? 69 : 65;
        g_first = (v2w ? 18 : 16) + (v2w ? 34u * (EMEL + EPER) : 0);
        g_calls = 0;
        __CPROVER_assert(need == g_first + (size_t)g_stride * 128 * (EMEL + EPER), "PROP: size calculator = header + meta + 128*size*banks");
    }
    rc = WOPN_SaveBankToMem(f, out, need, ver, 0);
    __CPROVER_assert(rc == WOPN_ERR_OK, "PROP: saving the loaded bank into the calculated size succeeds");
    __CPROVER_assert(g_calls == 128u * (EMEL + EPER), "PROP: writer emits 128 instruments per bank");

    g_base = out; g_len = need; g_calls = 0;   /* g_first / g_stride: the layout just written */
    g = WOPN_LoadBankFromMem(out, need, &err);
    __CPROVER_assert(g != 0, "PROP: the saved image loads");
    if(g != 0)
    {
        __CPROVER_assert(g->version == f->version, "PROP: version survives save+load");
        __CPROVER_assert(g->lfo_freq == f->lfo_freq, "PROP: LFO setting survives");
        __CPROVER_assert(f->version < 2 || g->chip_type == f->chip_type, "PROP: chip type survives (v2)");
        __CPROVER_assert(g->banks_count_melodic == f->banks_count_melodic && g->banks_count_percussion == f->banks_count_percussion, "PROP: bank counts survive");
        k = nondet_uchar();
        VASSUME(k < 128);
        __CPROVER_assert(g->banks_melodic[0].ins[k].fbalg == f->banks_melodic[0].ins[k].fbalg &&
                         g->banks_melodic[0].ins[k].note_offset == f->banks_melodic[0].ins[k].note_offset &&
                         g->banks_percussive[EPER - 1].ins[k].percussion_key_number == f->banks_percussive[EPER - 1].ins[k].percussion_key_number,
                         "PROP: instrument k of the first melodic / last percussion bank is read back from where it was written");
        if(f->version >= 2)
        {
            unsigned j = nondet_uchar();
            VASSUME(j < 32);
            __CPROVER_assert(g->banks_melodic[EMEL - 1].bank_midi_lsb == f->banks_melodic[EMEL - 1].bank_midi_lsb &&
                             g->banks_percussive[0].bank_midi_msb == f->banks_percussive[0].bank_midi_msb, "PROP: bank numbers survive (v2)");
            __CPROVER_assert(g->banks_melodic[0].bank_name[j] == f->banks_melodic[0].bank_name[j], "PROP: bank name survives (v2)");
        }
    }
    VWITNESS();
}

/* too-small destination: refused, nothing written at or beyond `length` */
void harness_small(void)
{
    int err = 0, rc;
    WOPNFile *f;
    size_t need, length, probe;
    unsigned char before;
    build_image();
    g_base = img; g_len = FULL; g_first = HDR + META; g_stride = INS_SZ; g_calls = 0;
    f = WOPN_LoadBankFromMem(img, FULL, &err);
    VASSUME(f != 0 && f->version >= 1);
    need = WOPN_CalculateBankFileSize(f, f->version);
    length = nondet_ulong(); probe = nondet_ulong();
    VASSUME(length < need && probe >= length && probe < OUTMAX);
    before = out[probe];
    g_base = out; g_len = need; g_stride = f->version >= 2 ? 69 : 65;
    g_first = (f->version >= 2 ? 18 : 16) + (f->version >= 2 ? 34u * (EMEL + EPER) : 0); g_calls = 0;
    rc = WOPN_SaveBankToMem(f, out, length, f->version, 0);
    __CPROVER_assert(rc != WOPN_ERR_OK, "PROP: too-small destination is refused");
    __CPROVER_assert(out[probe] == before, "PROP: no byte at or beyond the given length is written");
    VWITNESS();
}

/* C15.save.guard: WOPN_SaveBankToMem alone on a FORGED bank file value (no loader run): bank counts
 * MEL/PER concrete (up to 9 per group, so that 16-bit size arithmetic would wrap), version concrete,
 * destination length symbolic in [0, needed].  The write stub asserts that every instrument block --
 * and, at the first instrument of a group, the whole group -- lies inside the given length. */
#ifndef SAVE_VER
#define SAVE_VER 2
#endif
#define S_STRIDE ((SAVE_VER == 0 || SAVE_VER >= 2) ? 69 : 65)
#define S_FIRST (((SAVE_VER == 0 || SAVE_VER >= 2) ? 18 : 16) + ((SAVE_VER == 0 || SAVE_VER >= 2) ? 34u * (EMEL + EPER) : 0))
#define S_NEED (S_FIRST + (size_t)S_STRIDE * 128 * (EMEL + EPER))
static unsigned char sout[S_NEED];
void harness_save_guard(void)
{
    WOPNFile f;
    size_t length = nondet_ulong();
    int rc;
    VASSUME(length < S_NEED);   /* the exact-size case is harness_save_exact (no probe byte exists) */
    f.version = 2; f.banks_count_melodic = EMEL; f.banks_count_percussion = EPER;
    f.lfo_freq = nondet_uchar(); f.chip_type = nondet_uchar(); f.volume_model = 0;
    f.banks_melodic = (WOPNBank *)malloc(sizeof(WOPNBank) * EMEL);      /* contents arbitrary, only read */
    f.banks_percussive = (WOPNBank *)malloc(sizeof(WOPNBank) * EPER);
    VASSUME(f.banks_melodic != 0 && f.banks_percussive != 0);
    __CPROVER_assert(WOPN_CalculateBankFileSize(&f, SAVE_VER) >= S_NEED, "PROP: the size calculator reports at least header + meta + 128*size*banks");
    g_base = sout; g_len = length; g_first = S_FIRST; g_stride = S_STRIDE; g_calls = 0;
    rc = WOPN_SaveBankToMem(&f, sout, length, SAVE_VER, 0);
    __CPROVER_assert(rc == WOPN_ERR_UNEXPECTED_ENDING, "PROP: too-small destination is refused with the documented error");
    VWITNESS();
}

void harness_save_exact(void)
{
    WOPNFile f;
    int rc;
    f.version = 2; f.banks_count_melodic = EMEL; f.banks_count_percussion = EPER;
    f.lfo_freq = nondet_uchar(); f.chip_type = nondet_uchar(); f.volume_model = 0;
    f.banks_melodic = (WOPNBank *)malloc(sizeof(WOPNBank) * EMEL);
    f.banks_percussive = (WOPNBank *)malloc(sizeof(WOPNBank) * EPER);
    VASSUME(f.banks_melodic != 0 && f.banks_percussive != 0);
    g_base = sout; g_len = S_NEED; g_first = S_FIRST; g_stride = S_STRIDE; g_calls = 0;
    rc = WOPN_SaveBankToMem(&f, sout, S_NEED, SAVE_VER, 0);      /* sout has exactly S_NEED bytes */
    __CPROVER_assert(rc == WOPN_ERR_OK, "PROP: saving into a buffer of the calculated size succeeds");
    __CPROVER_assert(g_calls == 128u * (EMEL + EPER), "PROP: writer emits 128 instruments per bank");
    VWITNESS();
}
