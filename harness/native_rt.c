/* Native runtime for replaying solver counterexamples and for translator
 * validation.  Values are read from the file named by $VERIF_VALUES: one value
 * per line, "<kind> <bits-as-unsigned-decimal>" in call order.  When the file
 * is exhausted (or absent) a deterministic xorshift stream seeded by
 * $VERIF_SEED supplies the rest, so the same binary serves as a pseudo-random
 * differential driver. */
#include <stdio.h>
#include <stdlib.h>
#include <string.h>
#include <stdint.h>

static FILE *vf;
static int vf_init;
static uint64_t rng = 88172645463325252ull;
static int small_mode;

static void init(void)
{
    const char *p = getenv("VERIF_VALUES");
    const char *s = getenv("VERIF_SEED");
    vf_init = 1;
    if(p) vf = fopen(p, "r");
    if(s) rng ^= (uint64_t)strtoull(s, 0, 10) * 0x9E3779B97F4A7C15ull;
    if(!rng) rng = 1;
    small_mode = getenv("VERIF_SMALL") != 0;
}

static uint64_t next_bits(void)
{
    char kind[32];
    unsigned long long v;
    if(!vf_init) init();
    if(vf && fscanf(vf, "%31s %llu", kind, &v) == 2)
        return (uint64_t)v;
    rng ^= rng << 13; rng ^= rng >> 7; rng ^= rng << 17;
    if(small_mode)
    {
        /* bias towards small values so that assume()d bounds are often met */
        uint64_t r = rng >> 11;
        switch(r & 7)
        {
        case 0: case 1: case 2: return (r >> 3) & 0x7;
        case 3: case 4: return (r >> 3) & 0xf;
        case 5: return (r >> 3) & 0xff;
        case 6: return (r >> 3) & 0x7f;
        default: return r >> 3;
        }
    }
    return rng;
}

unsigned char  nondet_uchar(void)  { return (unsigned char)next_bits(); }
unsigned short nondet_ushort(void) { return (unsigned short)next_bits(); }
unsigned int   nondet_uint(void)   { return (unsigned int)next_bits(); }
unsigned long  nondet_ulong(void)  { return (unsigned long)next_bits(); }
signed char    nondet_schar(void)  { return (signed char)next_bits(); }
short          nondet_short(void)  { return (short)next_bits(); }
int            nondet_int(void)    { return (int)next_bits(); }
long           nondet_long(void)   { return (long)next_bits(); }
double nondet_double(void) { uint64_t b = next_bits(); double d; memcpy(&d, &b, 8); return d; }
float  nondet_float(void)  { uint32_t b = (uint32_t)next_bits(); float d; memcpy(&d, &b, 4); return d; }

void verif_native_assume(int c, const char *txt)
{
    if(!c)
    {
        fprintf(stderr, "VERIF-ASSUME-FAILED: %s\n", txt);
        fflush(stdout);
        _Exit(77);
    }
}

void verif_native_assert(int c, const char *msg)
{
    if(!c)
    {
        fflush(stdout);
        fprintf(stderr, "VERIF-ASSERT-FAILED: %s\n", msg);
        abort();
    }
}

void verif_observe(const char *tag, long v)
{
    printf("OBS %s %ld\n", tag, v);
}

#ifdef VERIF_ENTRY
void VERIF_ENTRY(void);
int main(void)
{
    VERIF_ENTRY();
    fflush(stdout);
    return 0;
}
#endif
