#!/bin/bash
# usage: seedtest2.sh <patch.diff> <property> [only-regex] [tier]
# applies a seeded change to a scratch worktree of /repo (never to /repo itself), runs the check against it through VERIF_REPO, reverts;
# the evidence file written by that run is restored from git afterwards (evidence must come from /repo itself)
set -u
P=$1; PROP=$2; ONLY=${3:-.}; TIER=${4:-quick}; WT=${SEED_WT:-/tmp/wt-seed}
[ -d $WT ] || git -C /repo worktree add -q --detach $WT HEAD
git -C $WT checkout -q -- . && git -C $WT apply "$P" || { echo "patch does not apply"; exit 9; }
cd /verif && VERIF_REPO=$WT timeout 3400 python3 vf.py check $PROP --tier $TIER --only "$ONLY" 2>&1 | grep -v "^\[.*PASS" | cut -c1-400 | tail -12
echo "exit=${PIPESTATUS[0]}"
git -C $WT checkout -q -- .
git -C /verif checkout -q -- evidence/$PROP.json 2>/dev/null
