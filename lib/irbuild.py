def build(runner, ob, wdir, witness):
    return None, 'IR engine not built yet'
def build_native(runner, ob, defines, exe, wdir):
    return False, 'IR engine not built yet'
