"""E-IR build pipeline: repo C++ units + C++ harness -> LLVM IR -> one module ->
ir2c -> goto-cc; and the native builds used for replay / translator validation."""
import os, re, hashlib, threading, json, time
from . import runner as R
from . import ir2c

CLANG = ['clang++-14', '-std=gnu++98', '-O1', '-fno-vectorize', '-fno-slp-vectorize', '-fno-unroll-loops',
         '-ffp-contract=off', '-fno-access-control', '-g1', '-fno-strict-aliasing', '-w',
         '-D_GLIBCXX_EXTERN_TEMPLATE=0', '-DVERIF_IR', '-S', '-emit-llvm']
GXX = ['g++', '-std=gnu++98', '-O1', '-g', '-ffunction-sections', '-fdata-sections', '-no-pie', '-Wl,--gc-sections', '-fno-access-control', '-w', '-DNATIVE_REPLAY',
       '-fsanitize=address,undefined', '-fno-sanitize-recover=undefined', '-fno-omit-frame-pointer']

_lock = threading.Lock()
_locks = {}


def _keylock(k):
    with _lock:
        if k not in _locks:
            _locks[k] = threading.Lock()
        return _locks[k]


def chip_defs(ob):
    r = ['-D' + d for d in ob.ir_opts.get('chip_defs', [])]
    for inc in ob.ir_opts.get('force_include', []):
        r += ['-include', os.path.join(R.HARN, inc)]
    return r


def compile_tu(run, src, flags, tag):
    """clang one TU to .ll, cached per run by (path, flags)."""
    cache = os.path.join(run.work, 'ircache')
    os.makedirs(cache, exist_ok=True)
    h = hashlib.sha1((src + '\0' + ' '.join(flags)).encode()).hexdigest()[:16]
    out = os.path.join(cache, '%s-%s.ll' % (tag, h))
    with _keylock(out):
        if os.path.exists(out):
            return out, ''
        cmd = CLANG + flags + [src, '-o', out + '.tmp']
        rc, o, e, w, rss, to = R.sh(cmd, timeout=300)
        if rc != 0:
            return None, 'clang failed on %s: %s' % (src, (e or o)[-1500:])
        os.rename(out + '.tmp', out)
    return out, ''


def compile_native_tu(run, src, cmd):
    """g++ -c one repo unit, cached per run by (path, command)."""
    cache = os.path.join(run.work, 'ocache')
    os.makedirs(cache, exist_ok=True)
    h = hashlib.sha1((src + '\0' + ' '.join(cmd)).encode()).hexdigest()[:16]
    out = os.path.join(cache, '%s-%s.o' % (re.sub(r'\W', '_', os.path.basename(src)), h))
    with _keylock(out):
        if os.path.exists(out):
            return out, ''
        rc, o, e, w, rss, to = R.sh(cmd + ['-c', src, '-o', out + '.tmp'], timeout=600)
        if rc != 0:
            return None, (e or o)
        os.rename(out + '.tmp', out)
    return out, ''


def build(run, ob, wdir, witness):
    defs = ['-D' + d for d in ob.all_defines(run.tier)]
    if witness:
        defs.append('-DWITNESS')
    common = R.REAL_DEFS + R.REPO_INCS + ['-I' + R.HARN] + chip_defs(ob)
    lls = []
    for tu in ob.repo_tus:
        ll, err = compile_tu(run, os.path.join(R.REPO, tu), common, re.sub(r'\W', '_', tu))
        if ll is None:
            return None, err
        lls.append(ll)
    hsrc = os.path.join(R.HARN, ob.src)
    hll, err = compile_tu(run, hsrc, common + defs, 'h_' + re.sub(r'\W', '_', ob.src))
    if hll is None:
        return None, err
    tag = 'w' if witness else 'h'
    linked = os.path.join(wdir, tag + '.linked.ll')
    rc, o, e, w, rss, to = R.sh(['llvm-link-14', '-S'] + [hll] + lls + ['-o', linked], timeout=300)
    if rc != 0:
        return None, 'llvm-link failed: ' + (e or o)[-1500:]
    red = os.path.join(wdir, tag + '.red.ll')
    rc, o, e, w, rss, to = R.sh(['opt-14', '-S', '-passes=internalize,globaldce',
                                 '-internalize-public-api-list=' + ob.entry, linked, '-o', red], timeout=300)
    if rc != 0:
        return None, 'opt failed: ' + (e or o)[-1500:]
    cfile = os.path.join(wdir, tag + '.c')
    try:
        ctext = ir2c.translate(open(red).read(), ob.entry, {'shift_checks': ob.ir_opts.get('shift_checks', False),
                                                           'nsw_checks': ob.ir_opts.get('nsw_checks', False),
                                                           'keep_extern': ob.ir_opts.get('keep_extern'), 'small_memmove': ob.ir_opts.get('small_memmove', False), 'stub_funcs': ob.ir_opts.get('stub_funcs'),
                                                           'lines': True})
    except Exception as ex:
        import traceback
        return None, 'ir2c failed: %r %s' % (ex, traceback.format_exc()[-800:])
    open(cfile, 'w').write(ctext)
    try:
        os.unlink(linked)
    except OSError:
        pass
    gb = os.path.join(wdir, tag + '.gb')
    rc, o, e, w, rss, to = R.sh(['goto-cc', '-DVERIF_CBMC', '-std=gnu11', cfile, '-o', gb], timeout=600)
    if rc != 0:
        return None, 'goto-cc failed on generated C: ' + (e or o)[-1500:]
    info = {}
    if not witness and ob.ir_opts.get('validate', True) and ob.native:
        ok, n, msg = validate(run, ob, wdir, cfile)
        info = {'tv_ok': ok, 'tv_vectors': n, 'tv_msg': msg}
    return gb, info


def native_sources(ob):
    return [os.path.join(R.REPO, t) for t in ob.repo_tus]


def build_native(run, ob, defines, exe, wdir):
    """g++ build of the original harness + the real repo sources (sanitizers on)."""
    common = R.REAL_DEFS + R.REPO_INCS + ['-I' + R.HARN] + chip_defs(ob) + ['-D' + d for d in defines]
    cmd = GXX + common + [os.path.join(R.HARN, ob.src)] + native_sources(ob) + \
        ['-x', 'c', os.path.join(R.HARN, 'native_rt.c'), '-DVERIF_ENTRY=' + ob.entry, '-o', exe, '-lm']
    # native_rt.c is C: compile separately to avoid -std clash
    rt_o = os.path.join(wdir, 'native_rt.o')
    rc, o, e, w, rss, to = R.sh(['gcc', '-O1', '-g', '-c', os.path.join(R.HARN, 'native_rt.c'),
                                 '-DVERIF_ENTRY=' + ob.entry, '-fsanitize=address,undefined', '-o', rt_o], timeout=120)
    if rc != 0:
        return False, (e or o)
    cmd = GXX + common + [os.path.join(R.HARN, ob.src)] + native_sources(ob) + [rt_o, '-o', exe, '-lm', '-Wl,--unresolved-symbols=ignore-all']
    rc, o, e, w, rss, to = R.sh(cmd, timeout=600)
    return rc == 0, (e or o)


def validate(run, ob, wdir, cfile):
    """Translator validation: gcc build of the generated C vs g++ build of the
    original harness + repo sources, same pseudo-random nondet streams, the
    observation logs (verif_observe + exit status) must agree."""
    nvec = ob.ir_opts.get('tv_vectors', 40)
    gen = os.path.join(wdir, 'tv_gen')
    rt_o = os.path.join(wdir, 'tv_rt.o')
    rc, o, e, w, rss, to = R.sh(['gcc', '-O1', '-c', os.path.join(R.HARN, 'native_rt.c'), '-DVERIF_ENTRY=verif_entry',
                                 '-o', rt_o], timeout=120)
    if rc != 0:
        return None, 0, 'native_rt build failed: ' + (e or o)[-300:]
    rc, o, e, w, rss, to = R.sh(['gcc', '-O1', '-w', '-std=gnu11', '-no-pie', cfile, rt_o, '-o', gen, '-lm', '-lstdc++'], timeout=600)
    if rc != 0:
        return None, 0, 'gcc failed on generated C: ' + (e or o)[-600:]
    orig = os.path.join(wdir, 'tv_orig')
    # the repo's units are compiled once per run and flag set (no obligation defines: the same split as in build()),
    # only the harness is compiled per obligation
    base = R.REAL_DEFS + R.REPO_INCS + ['-I' + R.HARN] + chip_defs(ob)
    common = base + ['-D' + d for d in ob.all_defines(run.tier)]
    rt2 = os.path.join(wdir, 'tv_rt2.o')
    R.sh(['gcc', '-O1', '-c', os.path.join(R.HARN, 'native_rt.c'), '-DVERIF_ENTRY=' + ob.entry, '-o', rt2], timeout=120)
    gxx = ['g++', '-std=gnu++98', '-O1', '-ffunction-sections', '-fdata-sections', '-fno-access-control', '-w', '-DNATIVE_REPLAY']
    objs = []
    for src in native_sources(ob):
        o, err = compile_native_tu(run, src, gxx + base)
        if o is None:
            return None, 0, 'g++ failed on %s: %s' % (src, err[-600:])
        objs.append(o)
    cmd = gxx + ['-no-pie', '-Wl,--gc-sections'] + common + [os.path.join(R.HARN, ob.src)] + objs + \
        [rt2, '-o', orig, '-lm', '-Wl,--unresolved-symbols=ignore-all']
    rc, o, e, w, rss, to = R.sh(cmd, timeout=600)
    if rc != 0:
        return None, 0, 'g++ failed on original harness: ' + (e or o)[-600:]
    # Vectors that stop at an assume() (exit 77) are still compared up to that point, but only vectors that get past
    # every assumption count as validated traces.  How many of a fixed number of pseudo-random vectors do so depends on
    # the seed, so vectors are drawn until nvec of them have passed all assumptions, at most 300 attempts (a fixed number, so
    # that the count is reproducible for a given seed; the 120 s limit is only a backstop for a harness whose native run is slow).
    agree = 0
    ran = 0
    effective = 0
    t0 = time.time()
    max_attempts = max(nvec, 300)
    for i in range(max_attempts):
        if effective >= nvec or (i >= nvec and time.time() - t0 > 120):
            break
        env = dict(os.environ)
        env['VERIF_SEED'] = str(run.seed * 100000 + i + 1)
        env['VERIF_SMALL'] = '1'
        env.pop('VERIF_VALUES', None)
        r1 = R.sh([gen], timeout=20, env=env, cwd=wdir)
        r2 = R.sh([orig], timeout=20, env=env, cwd=wdir)
        ran += 1
        s1 = (r1[0], r1[1])
        s2 = (r2[0], r2[1])
        if r1[5] or r2[5]:
            continue
        if s1 != s2:
            return False, ran, 'vector seed=%s: generated rc=%s obs=%r... original rc=%s obs=%r...' % (
                env['VERIF_SEED'], r1[0], r1[1][-200:], r2[0], r2[1][-200:])
        agree += 1
        if r1[0] != 77:
            effective += 1
    return True, effective, 'vectors run: %d (all agree), past all assumptions: %d (target %d)' % (agree, effective, nvec)
