#!/usr/bin/env python3
"""LLVM-IR (clang++-14, typed pointers) -> C translator used by the E-IR engine.

The output is one C translation unit: typedefs for every IR type with identical
layout (named structs -> structs f0..fn, arrays -> struct wrappers {T a[N];}),
globals with their initialisers (vtables become constant arrays of pointers),
and one C function per IR function, basic blocks as labels + goto, phi nodes as
parallel copies on the edges.  Integers are unsigned C types of the IR width and
signedness lives in the operations, so wrap-around is exactly the IR's.  Blocks
reachable only through unwind edges are dropped: __cxa_throw is an assertion
failure followed by assume(0) (see prelude), so no landing pad can be entered.

usage: ir2c.py in.ll out.c --entry NAME [--keep-extern REGEX] [--shift-checks] [--nsw-checks]
"""
import sys, re, struct, argparse, os
sys.path.insert(0, os.path.dirname(os.path.dirname(os.path.abspath(__file__))))
from lib.irparse import *
from lib import irparse

LIBC = set('''malloc calloc realloc free memcpy memmove memset memcmp strlen strcmp strncmp strcpy strncpy strcat strchr
 strrchr strstr strtol strtoul atoi abort exit abs labs exp exp2 log log2 log10 sin cos tan pow sqrt floor ceil round
 trunc fabs fmod floorf roundf ceilf sqrtf fabsf powf expf logf sinf cosf ldexp snprintf sprintf printf fprintf
 vsnprintf fopen fclose fread fwrite fseek ftell fflush fputs puts putchar fputc strerror time clock getenv
 isalpha isdigit isspace toupper tolower atof strtod lround lrint llround'''.split())

DROP_INTRINSICS = ('llvm.lifetime.', 'llvm.dbg.', 'llvm.experimental.noalias.scope.decl', 'llvm.assume',
                   'llvm.invariant.', 'llvm.prefetch', 'llvm.donothing', 'llvm.var.annotation', 'llvm.stackrestore')


class Unsupported(Exception):
    pass


def san(s):
    return re.sub(r'[^A-Za-z0-9_]', '_', s)


class Emitter(object):
    def __init__(self, mod, entry, opts):
        self.m = mod
        self.entry = entry
        self.o = opts
        self.gname = {}
        self.used_names = set()
        self.tname = {}
        self.tdefs = []       # (kind, T, cname)
        self.fn_typedefs = []
        self.out = []
        self.file_cache = {}
        self.loc_cache = {}
        self.strlits = {}
        self.extern_stubs = []

    # ------------------------------------------------------------ names
    def cg(self, name):
        if name in self.gname:
            return self.gname[name]
        s = san(name)
        if s != name or s in self.used_names or not re.match(r'[A-Za-z_]', s) or s in C_KEYWORDS:
            base = 'g_' + s
            s = base
            k = 0
            while s in self.used_names:
                k += 1
                s = '%s_%d' % (base, k)
        self.used_names.add(s)
        self.gname[name] = s
        return s

    # ------------------------------------------------------------ types
    def ct(self, t):
        key = t.key()
        if key in self.tname:
            return self.tname[key]
        k = t.k
        if k == 'int':
            w = t.a
            r = 'u8' if w <= 8 else 'u16' if w <= 16 else 'u32' if w <= 32 else 'u64' if w <= 64 else 'u128'
            if w > 128:
                raise Unsupported('integer width %d' % w)
        elif k == 'float':
            r = 'float'
        elif k == 'double':
            r = 'double'
        elif k == 'fp80':
            r = 'long double'
        elif k == 'void':
            r = 'void'
        elif k in ('opaque', 'metadata', 'label', 'token'):
            r = 'u8'
        elif k == 'ptr':
            inner = t.a
            if inner.k in ('void', 'opaque', 'metadata'):
                r = 'u8*'
            else:
                r = self.ct(inner) + '*'
        elif k == 'func':
            r = 'fn%d' % len(self.fn_typedefs)
            self.tname[key] = r
            ps = [self.ct(p) for p in t.b]
            if t.c:
                ps.append('...')
            if not ps:
                ps = ['void']
            if t.c and len(ps) == 1:
                ps = []   # K&R style unspecified
            self.fn_typedefs.append('typedef %s %s(%s);' % (self.ct(t.a), r, ', '.join(ps)))
            return r
        elif k == 'struct':
            r = 's%d_%s' % (len(self.tdefs), san(t.a)[-40:])
            self.tname[key] = r
            self.tdefs.append(('struct', t, r))
            return r
        elif k == 'lit':
            r = 'lit%d' % len(self.tdefs)
            self.tname[key] = r
            self.tdefs.append(('lit', t, r))
            return r
        elif k in ('arr', 'vec'):
            r = 'arr%d' % len(self.tdefs)
            self.tname[key] = r
            self.tdefs.append(('arr', t, r))
            return r
        else:
            raise Unsupported('type ' + key)
        self.tname[key] = r
        return r

    def struct_body(self, t):
        if t.k == 'struct':
            b = self.m.types.get(t.a)
            return b
        return t

    def elem_type(self, t, idx):
        if t.k == 'struct':
            b = self.m.types.get(t.a)
            if b is None:
                raise Unsupported('GEP into opaque ' + t.a)
            return b.b[idx]
        if t.k == 'lit':
            return t.b[idx]
        if t.k in ('arr', 'vec'):
            return t.b
        raise Unsupported('elem_type of ' + t.key())

    def sizeof(self, t):
        """(size, align) under the x86-64 data layout; None if unknown"""
        k = t.k
        if k == 'int':
            w = t.a
            b = 1 if w <= 8 else 2 if w <= 16 else 4 if w <= 32 else 8 if w <= 64 else 16
            return b, b
        if k == 'float': return 4, 4
        if k == 'double': return 8, 8
        if k == 'fp80': return 16, 16
        if k == 'ptr': return 8, 8
        if k in ('arr', 'vec'):
            r = self.sizeof(t.b)
            if r is None: return None
            return r[0] * t.a, r[1]
        if k in ('struct', 'lit'):
            b = self.struct_body(t)
            if b is None: return None
            off = 0; al = 1
            for mt in b.b:
                r = self.sizeof(mt)
                if r is None: return None
                ma = 1 if b.a else r[1]
                off = (off + ma - 1) // ma * ma
                off += r[0]
                al = max(al, ma)
            off = (off + al - 1) // al * al
            return off, al
        return None

    def emit_types(self):
        """Emit struct definitions in by-value dependency order; may discover
        new types while emitting, so iterate until stable."""
        lines = []
        done = set()
        fwd = []
        order = []

        def visit(i, stack):
            kind, t, name = self.tdefs[i]
            if name in done:
                return
            if name in stack:
                raise Unsupported('recursive by-value type ' + name)
            stack = stack | {name}
            members = []
            if kind == 'arr':
                members = [t.b]
            else:
                b = self.struct_body(t)
                members = list(b.b) if b is not None else []
            for mt in members:
                self.ct(mt)
                if mt.k in ('struct', 'lit', 'arr', 'vec'):
                    j = [x[2] for x in self.tdefs].index(self.ct(mt))
                    visit(j, stack)
            done.add(name)
            order.append(i)

        i = 0
        while i < len(self.tdefs):
            visit(i, set())
            i += 1
        # members may have introduced more tdefs during visit; loop again
        while len(done) < len(self.tdefs):
            for i in range(len(self.tdefs)):
                visit(i, set())
        for kind, t, name in self.tdefs:
            lines.append('typedef struct %s %s;' % (name, name))
        body = []
        for i in order:
            kind, t, name = self.tdefs[i]
            if kind == 'arr':
                n = t.a
                body.append('struct %s { %s a[%d]; };' % (name, self.ct(t.b), n))
            else:
                b = self.struct_body(t)
                if b is None:
                    continue   # opaque
                packed = ' __attribute__((packed))' if b.a else ''
                fs = ' '.join('%s f%d;' % (self.ct(mt), j) for j, mt in enumerate(b.b))
                body.append('struct%s %s { %s };' % (packed, name, fs))
        return lines, body

    # ----------------------------------------------------------- consts
    def intlit(self, w, v):
        v &= (1 << w) - 1
        if w <= 32:
            return '((%s)%dU)' % (self.ct(T('int', w)), v)
        if w <= 64:
            return '((u64)%dUL)' % v
        hi = v >> 64
        lo = v & ((1 << 64) - 1)
        return '((((u128)%dUL) << 64) | (u128)%dUL)' % (hi, lo)

    def fplit(self, t, a):
        if isinstance(a, str):
            if a.startswith('0xK') or a.startswith('0xL') or a.startswith('0xM') or a.startswith('0xH') or a.startswith('0xR'):
                raise Unsupported('fp literal ' + a)
            bits = int(a, 16)
            d = struct.unpack('<d', struct.pack('<Q', bits))[0]
        else:
            d = a
        if d != d:
            s = '__builtin_nan("")'
        elif d == float('inf'):
            s = '__builtin_inf()'
        elif d == float('-inf'):
            s = '(-__builtin_inf())'
        else:
            s = d.hex()
            if s.startswith('-'):
                s = '(%s)' % s
        if t.k == 'float':
            return '((float)%s)' % s
        return s

    def is_agg(self, t):
        return t.k in ('struct', 'lit', 'arr', 'vec')

    def init(self, v):
        """brace initialiser (or scalar expression) for constant v"""
        t = v.t
        if v.k == 'zero' or (v.k == 'undef' and self.is_agg(t)):
            if self.is_agg(t):
                return '{0}'
            return self.val(v)
        if v.k == 'cstr':
            return '{ { %s } }' % ', '.join(str(b) for b in v.a)
        if v.k == 'agg':
            if t.k in ('arr', 'vec'):
                return '{ { %s } }' % ', '.join(self.init(e) for e in v.a)
            if not v.a:
                return '{0}'
            return '{ %s }' % ', '.join(self.init(e) for e in v.a)
        return self.val(v)

    def val(self, v, fn=None):
        t = v.t
        k = v.k
        if k == 'local':
            return fn.lname(v.a)
        if k == 'global':
            return self.gref(v.a, t)
        if k == 'int':
            return self.intlit(t.a, v.a)
        if k == 'fp':
            return self.fplit(t, v.a)
        if k in ('null', 'undef', 'zero'):
            if self.is_agg(t):
                return '((%s){0})' % self.ct(t)
            if t.k in ('float', 'double', 'fp80'):
                return '((%s)0)' % self.ct(t)
            return '((%s)0)' % self.ct(t)
        if k in ('agg', 'cstr'):
            return '((%s)%s)' % (self.ct(t), self.init(v))
        if k == 'cexpr':
            return self.cexpr(v, fn)
        if k == 'meta':
            return '0'
        raise Unsupported('value kind ' + k)

    def gref(self, name, t):
        if name in self.m.aliases:
            return self.val(self.m.aliases[name])
        if name in self.m.funcs:
            f = self.m.funcs[name]
            if not f.defined and name in BUILTIN_EXTERNS:
                return '((%s)%s)' % (self.ct(t), BUILTIN_EXTERNS[name])
            if not f.defined and name in LIBC:
                return '((%s)%s)' % (self.ct(t), name)
            cn = self.func_cname(f)
            return '((%s)%s)' % (self.ct(t), cn)
        if name.startswith('_ZTI') or name.startswith('_ZTS') or name.startswith('_ZTVN10__cxxabiv'):
            return '((%s)0)' % self.ct(t)
        g = self.m.globals.get(name)
        if g is None:
            raise Unsupported('unknown global @' + name)
        return '((%s)&%s)' % (self.ct(t), self.cg(name))

    def cexpr(self, v, fn):
        op = v.a
        x, ops = v.b
        if op == 'getelementptr':
            return self.gep(x, ops, fn)[0]
        if op == 'icmp':
            return self.icmp(x, ops[0].t, self.val(ops[0], fn), self.val(ops[1], fn))
        if op == 'select':
            return '(%s ? %s : %s)' % (self.val(ops[0], fn), self.val(ops[1], fn), self.val(ops[2], fn))
        if op in BINOPS:
            return self.binop(op, ops[0].t, self.val(ops[0], fn), self.val(ops[1], fn), ())
        return self.cast(op, ops[0].t, v.t, self.val(ops[0], fn))

    # ------------------------------------------------------ expressions
    def st(self, w):
        return {8: 's8', 16: 's16', 32: 's32', 64: 's64', 128: 's128'}[w]

    def sx(self, t, e):
        """signed view of integer expression e of IR type t, as C signed type of the storage width"""
        w = t.a
        if w in (8, 16, 32, 64, 128):
            return '((%s)%s)' % (self.st(w), e)
        sw = 8 if w < 8 else 16 if w < 16 else 32 if w < 32 else 64 if w < 64 else 128
        return '((%s)((%s)((%s)%s << %d)) >> %d)' % (self.st(sw), self.st(sw), self.ct(t), e, sw - w, sw - w)

    def mask(self, t, e):
        w = t.a
        if w in (8, 16, 32, 64, 128):
            return '((%s)(%s))' % (self.ct(t), e)
        return '((%s)((%s) & %s))' % (self.ct(t), e, self.intlit(max(w, 8), (1 << w) - 1))

    def wide(self, t):
        """unsigned type arithmetic is carried out in (avoids int promotion)"""
        w = t.a
        return 'u32' if w <= 32 else 'u64' if w <= 64 else 'u128'

    def binop(self, op, t, a, b, flags):
        if t.k in ('float', 'double', 'fp80'):
            c = {'fadd': '+', 'fsub': '-', 'fmul': '*', 'fdiv': '/'}.get(op)
            if op == 'frem':
                return 'fmod(%s, %s)' % (a, b)
            return '(%s %s %s)' % (a, c, b)
        if t.k != 'int':
            raise Unsupported('binop on ' + t.key())
        W = self.wide(t)
        w = t.a
        if op in ('add', 'sub', 'mul', 'and', 'or', 'xor'):
            c = {'add': '+', 'sub': '-', 'mul': '*', 'and': '&', 'or': '|', 'xor': '^'}[op]
            pre = ''
            if self.o.get('nsw_checks') and 'nsw' in flags and op in ('add', 'sub', 'mul') and w in (32, 64):
                pre = 'IR_NSW_%s(%s, %s, %s), ' % (op.upper(), self.st(w), a, b)
            return self.mask(t, '%s(%s)%s %s (%s)%s' % (pre, W, a, c, W, b)) if not pre else \
                '(%s%s)' % (pre, self.mask(t, '(%s)%s %s (%s)%s' % (W, a, c, W, b)))
        if op in ('udiv', 'urem'):
            c = '/' if op == 'udiv' else '%'
            return self.mask(t, '(%s)%s %s (%s)%s' % (W, a, c, W, b))
        if op in ('sdiv', 'srem'):
            c = '/' if op == 'sdiv' else '%'
            return self.mask(t, '%s %s %s' % (self.sx(t, a), c, self.sx(t, b)))
        if op in ('shl', 'lshr', 'ashr'):
            mc = re.match(r'\(\(u\d+\)(\d+)UL?\)$', b)
            if mc and int(mc.group(1)) < w:
                n = int(mc.group(1))
                if op == 'shl':
                    return self.mask(t, '(%s)%s << %d' % (W, a, n))
                if op == 'lshr':
                    return self.mask(t, '(%s)%s >> %d' % (W, a, n))
                sw = 32 if w <= 32 else 64 if w <= 64 else 128
                return self.mask(t, '(%s)%s >> %d' % (self.st(sw), self.sx(t, a), n))
            chk = 'IR_SHCHK(%s < %d), ' % (b, w) if self.o.get('shift_checks') else ''
            if op == 'shl':
                e = '((%s)%s << ((%s) & %d))' % (W, a, b, (64 if w > 32 else 32) - 1 if w <= 64 else 127)
            elif op == 'lshr':
                e = '((%s)%s >> ((%s) & %d))' % (W, a, b, (64 if w > 32 else 32) - 1 if w <= 64 else 127)
            else:
                sw = 32 if w <= 32 else 64 if w <= 64 else 128
                e = '((%s)%s >> ((%s) & %d))' % (self.st(sw), self.sx(t, a), b, sw - 1)
            r = self.mask(t, e)
            # shift amounts >= width give poison in IR; the expression above masks the amount like x86 does
            # (a legal refinement of poison), so a guard removed from e.g. `1u << id` shows the aliasing
            # behaviour of the real build instead of a silent 0
            return '(%s%s)' % (chk, r) if chk else r
        raise Unsupported('binop ' + op)

    def icmp(self, pred, t, a, b):
        if t.k == 'ptr':
            a = '((u8*)%s)' % a
            b = '((u8*)%s)' % b
            c = {'eq': '==', 'ne': '!=', 'ult': '<', 'ule': '<=', 'ugt': '>', 'uge': '>=',
                 'slt': '<', 'sle': '<=', 'sgt': '>', 'sge': '>='}[pred]
            return '((u8)(%s %s %s))' % (a, c, b)
        if t.k != 'int':
            raise Unsupported('icmp on ' + t.key())
        if pred in ('eq', 'ne', 'ult', 'ule', 'ugt', 'uge'):
            c = {'eq': '==', 'ne': '!=', 'ult': '<', 'ule': '<=', 'ugt': '>', 'uge': '>='}[pred]
            W = self.wide(t)
            return '((u8)((%s)%s %s (%s)%s))' % (W, a, c, W, b)
        c = {'slt': '<', 'sle': '<=', 'sgt': '>', 'sge': '>='}[pred]
        return '((u8)(%s %s %s))' % (self.sx(t, a), c, self.sx(t, b))

    def fcmp(self, pred, a, b):
        tbl = {
            'oeq': '(A == B)', 'ogt': '(A > B)', 'oge': '(A >= B)', 'olt': '(A < B)', 'ole': '(A <= B)',
            'one': '(A < B || A > B)', 'ord': '(A == A && B == B)', 'uno': '(A != A || B != B)',
            'ueq': '(!(A < B || A > B))', 'ugt': '(!(A <= B))', 'uge': '(!(A < B))', 'ult': '(!(A >= B))',
            'ule': '(!(A > B))', 'une': '(A != B)', 'true': '1', 'false': '0'}
        return '((u8)%s)' % tbl[pred].replace('A', a).replace('B', b)

    def cast(self, op, ft, tt, e):
        ct = self.ct(tt)
        if op == 'trunc':
            return self.mask(tt, '(%s)%s' % (ct, e))
        if op == 'zext':
            return '((%s)%s)' % (ct, e)
        if op == 'sext':
            return self.mask(tt, '(%s)%s' % (self.st(max(8, 1 << (tt.a - 1).bit_length())) if tt.a not in (8, 16, 32, 64, 128) else self.st(tt.a), self.sx(ft, e)))
        if op == 'fptoui':
            return self.mask(tt, '(%s)%s' % (self.wide(tt) if tt.a >= 32 else ct, e)) if tt.a != 1 else '((u8)(%s != 0))' % e
        if op == 'fptosi':
            return self.mask(tt, '(%s)%s' % (self.st(max(8, tt.a)) if tt.a in (8, 16, 32, 64) else 's64', e))
        if op == 'uitofp':
            return '((%s)%s)' % (ct, e)
        if op == 'sitofp':
            return '((%s)%s)' % (ct, self.sx(ft, e))
        if op in ('fptrunc', 'fpext'):
            return '((%s)%s)' % (ct, e)
        if op == 'ptrtoint':
            return self.mask(tt, '(u64)%s' % e)
        if op == 'inttoptr':
            return '((%s)(u64)%s)' % (ct, e)
        if op in ('bitcast', 'addrspacecast'):
            if ft.k == 'ptr' and tt.k == 'ptr':
                return '((%s)%s)' % (ct, e)
            if ft.k == 'int' and tt.k == 'double':
                return 'ir_bits2d(%s)' % e
            if ft.k == 'double' and tt.k == 'int':
                return 'ir_d2bits(%s)' % e
            if ft.k == 'int' and tt.k == 'float':
                return 'ir_bits2f(%s)' % e
            if ft.k == 'float' and tt.k == 'int':
                return 'ir_f2bits(%s)' % e
            if ft.key() == tt.key():
                return e
            raise Unsupported('bitcast %s -> %s' % (ft, tt))
        raise Unsupported('cast ' + op)

    def gep(self, bt, ops, fn):
        # Peephole: a GEP that enters field 0 of Y through a pointer obtained by bitcasting X* to Y*,
        # where field 0 of Y has type X (derived<-base casts, pl_list's end cell), is the same address
        # as the original X*; using it keeps the access typed (a mismatched struct type makes CBMC
        # rewrite the whole enclosing object through byte_extract on every store).
        for _ in range(4):
            b0 = ops[0]
            if not (fn is not None and b0.k == 'local' and b0.a in fn.defs and len(ops) > 2):
                break
            d = fn.defs[b0.a]
            if d.op != 'bitcast' or d.ops[0].t.k != 'ptr':
                break
            i0, i1 = ops[1], ops[2]
            if not ((i0.k == 'zero' or (i0.k == 'int' and i0.a == 0)) and (i1.k == 'zero' or (i1.k == 'int' and i1.a == 0))):
                break
            if bt.k not in ('struct', 'lit'):
                break
            try:
                f0 = self.elem_type(bt, 0)
            except Unsupported:
                break
            X = d.ops[0].t.a
            if f0.key() != X.key():
                break
            bt = X
            ops = [d.ops[0], ops[1]] + list(ops[3:])
        base = ops[0]
        e = self.val(base, fn)
        # Entering member 0 of a struct is the same address as the struct: express it as a cast to
        # the member's type.  A pl_list end cell is a pl_basic_cell object addressed through a
        # pl_cell* (whose member 0 is the pl_basic_cell base); with the cast CBMC sees a well-typed
        # access in both cases instead of a byte_extract over the enclosing object.
        while len(ops) > 2 and bt.k in ('struct', 'lit') and \
                (ops[1].k == 'zero' or (ops[1].k == 'int' and ops[1].a == 0)) and \
                (ops[2].k == 'zero' or (ops[2].k == 'int' and ops[2].a == 0)):
            try:
                f0 = self.elem_type(bt, 0)
            except Unsupported:
                break
            if f0.k not in ('struct', 'lit') and len(ops) > 3:
                break
            e = '((%s*)%s)' % (self.ct(f0), e)
            bt = f0
            ops = [ops[0], ops[1]] + list(ops[3:])
        idx0 = ops[1] if len(ops) > 1 else None
        cur = bt
        if idx0 is None or (idx0.k == 'int' and idx0.a == 0) or idx0.k == 'zero':
            lv = '(*%s)' % e
        else:
            lv = '(%s)[%s]' % (e, self.sidx(idx0, fn))
        for ix in ops[2:]:
            if cur.k in ('struct', 'lit'):
                if ix.k not in ('int', 'zero'):
                    raise Unsupported('non-constant struct index')
                n = ix.a if ix.k == 'int' else 0
                lv += '.f%d' % n
                cur = self.elem_type(cur, n)
            elif cur.k in ('arr', 'vec'):
                lv += '.a[%s]' % self.sidx(ix, fn)
                cur = cur.b
            else:
                raise Unsupported('GEP through ' + cur.key())
        self.ct(cur)
        return '(&%s)' % lv, cur

    def sidx(self, ix, fn):
        if ix.k == 'int':
            w = ix.t.a
            v = ix.a & ((1 << w) - 1)
            if v >> (w - 1):
                v -= 1 << w
            return str(v)
        if ix.k == 'zero':
            return '0'
        return '(s64)' + self.sx(ix.t, self.val(ix, fn))

    # --------------------------------------------------------- locations
    def loc(self, dbg):
        if dbg is None:
            return None
        if dbg in self.loc_cache:
            return self.loc_cache[dbg]
        r = None
        txt = self.m.md.get(dbg, '')
        m = re.search(r'DILocation\(line: (\d+)', txt)
        if m:
            line = int(m.group(1))
            sc = re.search(r'scope: (!\d+)', txt)
            f = self.scope_file(sc.group(1)) if sc else None
            if f and line > 0:
                r = (line, f)
        self.loc_cache[dbg] = r
        return r

    def scope_file(self, sid, depth=0):
        if sid in self.file_cache:
            return self.file_cache[sid]
        txt = self.m.md.get(sid, '')
        r = None
        m = re.search(r'file: (!\d+)', txt)
        if m:
            ft = self.m.md.get(m.group(1), '')
            fm = re.search(r'filename: "([^"]*)"(?:, directory: "([^"]*)")?', ft)
            if fm:
                r = fm.group(1)
                if not os.path.isabs(r) and fm.group(2):
                    r = os.path.join(fm.group(2), r)
        if r is None and depth < 20:
            m = re.search(r'scope: (!\d+)', txt)
            if m:
                r = self.scope_file(m.group(1), depth + 1)
        self.file_cache[sid] = r
        return r

    # --------------------------------------------------------- functions
    def func_cname(self, f):
        n = f.name
        if n.startswith('\x01'):
            n = n[1:]
        if n.startswith('\\01'):
            n = n[3:]
        return self.cg(n)

    def proto(self, f, names=False):
        ps = []
        for i, (t, nm) in enumerate(f.params):
            ps.append(self.ct(t) + (' v_%s' % san(nm if nm is not None else 'p%d' % i) if names else ''))
        if f.vararg:
            ps.append('...')
        if not ps:
            ps = ['void']
        return '%s %s(%s)' % (self.ct(f.ret), self.func_cname(f), ', '.join(ps))

    def run(self):
        m = self.m
        # reserve C names of functions first (they must keep their linker names where possible)
        defined = [f for f in m.funcs.values() if f.defined]
        declared = [f for f in m.funcs.values() if not f.defined]
        for f in defined:
            self.func_cname(f)
        bodies = []
        stub_pat = self.o.get('stub_funcs')
        for f in defined:
            if stub_pat and f.name != self.entry and re.search(stub_pat, f.name):
                # body replaced by a counting no-op stub (listed in the obligation's `stubs`)
                rt = self.ct(f.ret)
                body = 'verif_stub_hits++;'
                if f.ret.k != 'void':
                    body += ' { %s r; memset(&r, 0, sizeof r); return r; }' % rt
                bodies.append('static %s\n{\n  %s\n}\n' % (self.proto(f, True), body))
                continue
            try:
                bodies.append(FuncEmitter(self, f).emit())
            except Unsupported as ex:
                bodies.append('%s\n{\n  IR_UNSUPPORTED("function %s not translated: %s");\n}\n' %
                              (('static ' if f.name != self.entry else '') + self.proto(f, True), f.name, str(ex).replace('"', "'")))
                self.used_externs = getattr(self, 'used_externs', set())
        # globals
        gl_decl = []
        gl_def = []
        for g in m.globals.values():
            if g.name.startswith('llvm.'):
                continue
            if g.name.startswith('_ZTI') or g.name.startswith('_ZTS'):
                continue
            cn = self.cg(g.name)
            ty = self.ct(g.t)
            if g.name == 'verif_stub_hits':
                continue
            if g.external or g.init is None:
                gl_decl.append('extern %s %s;' % (ty, cn))
            else:
                gl_decl.append('static %s %s;' % (ty, cn))
                try:
                    gl_def.append('static %s %s = %s;' % (ty, cn, self.init(g.init)))
                except Unsupported as ex:
                    gl_def.append('/* initialiser of %s not translated: %s */' % (cn, ex))
        # global ctors
        ctors = []
        gc = m.globals.get('llvm.global_ctors')
        if gc is not None and gc.init is not None and gc.init.k == 'agg':
            ents = []
            for e in gc.init.a:
                prio = e.a[0].a
                fnv = e.a[1]
                if fnv.k == 'global':
                    ents.append((prio, fnv.a))
                elif fnv.k == 'cexpr' and fnv.b[1][0].k == 'global':
                    ents.append((prio, fnv.b[1][0].a))
            ents.sort(key=lambda x: x[0])
            ctors = [self.func_cname(m.funcs[n]) for p, n in ents if n in m.funcs]
        # declared externals
        ext_protos = []
        ext_stubs = []
        keep = self.o.get('keep_extern')
        for f in declared:
            n = f.name
            if n.startswith('llvm.') or n in LIBC or n in BUILTIN_EXTERNS or n.startswith('__CPROVER') or \
                    re.match(r'_ZSt\d+__throw_', n):
                continue
            if n not in getattr(self, 'called', set()) and n not in getattr(self, 'addr_taken', set()):
                continue
            if n.startswith('nondet_') or n in ('verif_observe',) or (keep and re.search(keep, n)):
                ext_protos.append(self.proto(f) + ';')
                continue
            ext_protos.append('static ' + self.proto(f) + ';')
            rt = self.ct(f.ret)
            body = 'IR_UNSUPPORTED("unmodelled external %s reached");' % n
            if f.ret.k != 'void':
                body += ' { %s r; memset(&r, 0, sizeof r); return r; }' % rt
            if f.vararg and not f.params:
                continue
            ext_stubs.append('static %s { %s }' % (self.proto(f, True), body))
        tfwd, tbody = self.emit_types()
        out = [PRELUDE]
        out += tfwd
        out += self.fn_typedefs
        out += tbody
        out.append(PRELUDE2)
        out += ext_protos
        for f in defined:
            out.append(('static ' if f.name != self.entry else '') + self.proto(f) + ';')
        out += ['static %s nd_log_%s;' % (t, k) for k, t in sorted(getattr(self, 'nd_kinds', {}).items())]
        out += gl_decl
        out += gl_def
        out += ext_stubs
        out += bodies
        out.append('void verif_entry(void)\n{\n' + ''.join('  %s();\n' % c for c in ctors) +
                   '  %s();\n}\n' % self.func_cname(m.funcs[self.entry]))
        return '\n'.join(out) + '\n'


C_KEYWORDS = set('''auto break case char const continue default do double else enum extern float for goto if inline int long
 register restrict return short signed sizeof static struct switch typedef union unsigned void volatile while main
 u8 u16 u32 u64 u128 s8 s16 s32 s64 s128 abs exp log sin floor round sqrt pow'''.split())

BUILTIN_EXTERNS = {
    '_Znwm': 'ir_new', '_Znam': 'ir_new', '_ZnwmRKSt9nothrow_t': 'ir_new', '_ZnamRKSt9nothrow_t': 'ir_new',
    '_ZdlPv': 'ir_delete', '_ZdaPv': 'ir_delete', '_ZdlPvm': 'ir_delete', '_ZdaPvm': 'ir_delete',
    '__cxa_allocate_exception': 'ir_new', '__cxa_throw': 'ir_throw', '__cxa_rethrow': 'ir_throw',
    '__cxa_begin_catch': 'ir_begin_catch', '__cxa_end_catch': 'ir_nop', '_ZSt9terminatev': 'ir_terminate',
    '__cxa_pure_virtual': 'ir_terminate', '__cxa_guard_acquire': 'ir_guard_acquire',
    '__cxa_guard_release': 'ir_guard_release', '__cxa_guard_abort': 'ir_nop', '__cxa_atexit': 'ir_atexit',
    '__cxa_free_exception': 'ir_delete', 'bcmp': 'memcmp', '__assert_fail': 'ir_assert_fail',
    '__cxa_bad_cast': 'ir_throw', '__cxa_bad_typeid': 'ir_throw', '__cxa_throw_bad_array_new_length': 'ir_throw',
}

PRELUDE = r'''/* generated by /verif/lib/ir2c.py -- do not edit */
#include <stdlib.h>
#include <string.h>
#include <math.h>
#include <stdio.h>
typedef unsigned char u8; typedef unsigned short u16; typedef unsigned int u32; typedef unsigned long u64;
typedef signed char s8; typedef short s16; typedef int s32; typedef long s64;
typedef unsigned __int128 u128; typedef __int128 s128;
#ifdef VERIF_CBMC
#define IR_ASSERT(c, msg) __CPROVER_assert(c, msg)
#define IR_ASSUME(c) __CPROVER_assume(c)
#else
void verif_native_assume(int c, const char *txt);
void verif_native_assert(int c, const char *msg);
#define IR_ASSERT(c, msg) verif_native_assert(c, msg)
#define IR_ASSUME(c) verif_native_assume(c, "ir")
#define __CPROVER_assume(c) verif_native_assume(c, "harness assume")
#define __CPROVER_assert(c, msg) verif_native_assert(c, msg)
#endif
#define IR_UNSUPPORTED(msg) do { IR_ASSERT(0, "UNSUPPORTED: " msg); IR_ASSUME(0); } while(0)
#define IR_UNREACHABLE() do { IR_ASSERT(0, "IR unreachable executed"); IR_ASSUME(0); } while(0)
#define IR_SHCHK(c) IR_ASSERT(c, "shift amount below bit width")
static inline double ir_bits2d(u64 x) { union { u64 i; double d; } u; u.i = x; return u.d; }
static inline u64 ir_d2bits(double x) { union { u64 i; double d; } u; u.d = x; return u.i; }
static inline float ir_bits2f(u32 x) { union { u32 i; float d; } u; u.i = x; return u.d; }
static inline u32 ir_f2bits(float x) { union { u32 i; float d; } u; u.d = x; return u.i; }
static u64 ir_alloc_max; static u64 ir_alloc_sum; static u64 ir_alloc_count;
u32 verif_stub_hits;
static void ir_smallmove(u8 *d, const u8 *s, u64 n) { u8 t[8]; u64 i; if(n == 0) return; if(n > 8) { memmove((void*)d, (const void*)s, (size_t)n); return; }
  for(i = 0; i < 8; i++) { if(i < n) t[i] = s[i]; } for(i = 0; i < 8; i++) { if(i < n) d[i] = t[i]; } }
static u8 *ir_new(u64 n) { u8 *p; ir_alloc_count++; ir_alloc_sum += n; if(n > ir_alloc_max) ir_alloc_max = n; p = (u8 *)malloc(n); IR_ASSUME(p != 0); return p; }
static void ir_delete(void *p) { free(p); }
static void ir_throw(void) { IR_ASSERT(0, "C++ exception thrown (__cxa_throw reached)"); IR_ASSUME(0); }
static void ir_terminate(void) { IR_ASSERT(0, "std::terminate / pure virtual reached"); IR_ASSUME(0); }
static void ir_assert_fail(void) { IR_ASSERT(0, "assert() of the code under test failed"); IR_ASSUME(0); }
static u8 *ir_begin_catch(void *p) { return (u8 *)p; }
static void ir_nop(void) { }
static int ir_guard_acquire(void *g) { return *(u8 *)g == 0; }
static void ir_guard_release(void *g) { *(u8 *)g = 1; }
static int ir_atexit(void) { return 0; }
'''

PRELUDE2 = r'''
/* libm: under CBMC the transcendental functions are nondeterministic values constrained by a
   sound envelope of the real function (libm itself is trusted, not encoded); natively they are libm. */
#ifdef VERIF_CBMC
double nondet_irm_double(void);
static double ir_exp_env(double x) { double r = nondet_irm_double(); if(x != x) return x; __CPROVER_assume(r == r && r >= 0.0);
  if(x > 709.79) return __builtin_inf(); if(x < -745.2) return 0.0; __CPROVER_assume(r < __builtin_inf());
  if(x <= 0.0) __CPROVER_assume(r <= 1.0); if(x >= 0.0) __CPROVER_assume(r >= 1.0 && r >= 1.0 + x);
  if(x <= 709.0 && x >= -700.0) __CPROVER_assume(r > 0.0);
  /* staircase enclosure e^a <= exp(x) <= e^b for a <= x <= b (constants rounded outwards) */
  if(x <= 2.0) __CPROVER_assume(r <= 7.3890561); if(x <= 5.0) __CPROVER_assume(r <= 148.41316); if(x <= 8.0) __CPROVER_assume(r <= 2980.958);
  if(x <= 12.0) __CPROVER_assume(r <= 162754.8); if(x <= 20.0) __CPROVER_assume(r <= 485165196.0); if(x <= 40.0) __CPROVER_assume(r <= 2.3538527e17);
  if(x <= 100.0) __CPROVER_assume(r <= 2.6881172e43); if(x <= 300.0) __CPROVER_assume(r <= 1.9424264e130);
  if(x >= 2.0) __CPROVER_assume(r >= 7.389056); if(x >= 5.0) __CPROVER_assume(r >= 148.41315); if(x >= 8.0) __CPROVER_assume(r >= 2980.957);
  if(x >= 12.0) __CPROVER_assume(r >= 162754.7); if(x >= 20.0) __CPROVER_assume(r >= 485165195.0); if(x >= 40.0) __CPROVER_assume(r >= 2.3538526e17);
  if(x >= 100.0) __CPROVER_assume(r >= 2.6881171e43); if(x >= 300.0) __CPROVER_assume(r >= 1.9424263e130);
  if(x >= -2.0) __CPROVER_assume(r >= 0.13533528); if(x >= -8.0) __CPROVER_assume(r >= 0.00033546262); if(x >= -20.0) __CPROVER_assume(r >= 2.0611536e-9);
  return r; }
static double ir_log_env(double x) { double r = nondet_irm_double(); if(x != x || x < 0.0) return __builtin_nan(""); if(x == 0.0) return -__builtin_inf();
  if(x == __builtin_inf()) return x; __CPROVER_assume(r == r && r > -746.0 && r < 710.0); if(x >= 1.0) __CPROVER_assume(r >= 0.0 && r <= x - 1.0);
  if(x <= 1.0) __CPROVER_assume(r <= 0.0);
  if(x <= 1108075.0) __CPROVER_assume(r <= 13.918144); if(x >= 1108076.0) __CPROVER_assume(r >= 13.918143);
  if(x <= 260144641.0) __CPROVER_assume(r <= 19.376788); if(x >= 260144641.0) __CPROVER_assume(r >= 19.376787);
  return r; }
/* the stubs are functions: the same argument gives the same value, and values are monotone in the
   argument (two-entry memo; enough for the 2-safety harnesses that call a kernel twice) */
static double ir_exp_x[2], ir_exp_r[2]; static int ir_exp_n;
static double ir_exp(double x) { int i; double r; for(i = 0; i < 2; i++) if(i < ir_exp_n && ir_exp_x[i] == x) return ir_exp_r[i];
  r = ir_exp_env(x); for(i = 0; i < 2; i++) if(i < ir_exp_n && r == r) { if(x <= ir_exp_x[i]) __CPROVER_assume(r <= ir_exp_r[i]); if(x >= ir_exp_x[i]) __CPROVER_assume(r >= ir_exp_r[i]); }
  if(ir_exp_n < 2) { ir_exp_x[ir_exp_n] = x; ir_exp_r[ir_exp_n] = r; ir_exp_n++; } return r; }
static double ir_log_x[2], ir_log_r[2]; static int ir_log_n;
static double ir_log(double x) { int i; double r; for(i = 0; i < 2; i++) if(i < ir_log_n && ir_log_x[i] == x) return ir_log_r[i];
  r = ir_log_env(x); for(i = 0; i < 2; i++) if(i < ir_log_n && r == r) { if(x <= ir_log_x[i]) __CPROVER_assume(r <= ir_log_r[i]); if(x >= ir_log_x[i]) __CPROVER_assume(r >= ir_log_r[i]); }
  if(ir_log_n < 2) { ir_log_x[ir_log_n] = x; ir_log_r[ir_log_n] = r; ir_log_n++; } return r; }
static double ir_sin(double x) { double r = nondet_irm_double(); if(x != x || x == __builtin_inf() || x == -__builtin_inf()) return __builtin_nan("");
  __CPROVER_assume(r >= -1.0 && r <= 1.0); return r; }
static double ir_pow(double x, double y) { double r = nondet_irm_double(); if(x > 0.0 && x < __builtin_inf() && y == y) { __CPROVER_assume(r == r && r >= 0.0);
  if(x >= 1.0 && y <= 0.0) __CPROVER_assume(r <= 1.0 && r > 0.0); if(x >= 1.0 && y >= 0.0) __CPROVER_assume(r >= 1.0); } return r; }
static double ir_sqrt(double x) { double r = nondet_irm_double(); if(x != x || x < 0.0) return __builtin_nan(""); if(x == 0.0 || x == __builtin_inf()) return x;
  __CPROVER_assume(r == r && r > 0.0 && r < __builtin_inf()); if(x >= 1.0) __CPROVER_assume(r >= 1.0 && r <= x); else __CPROVER_assume(r <= 1.0 && r >= x); return r; }
static double ir_exp2(double x) { return ir_pow(2.0, x); }
#else
#define ir_exp exp
#define ir_log log
#define ir_sin sin
#define ir_pow pow
#define ir_sqrt sqrt
#define ir_exp2 exp2
#endif
typedef struct { u64 f0; u8 f1; } ir_ov64; typedef struct { u32 f0; u8 f1; } ir_ov32;
'''


class FuncEmitter(object):
    def __init__(self, E, f):
        self.E = E
        self.f = f
        self.names = {}
        self.used = set()
        self.decl = []
        self.types = {}
        self.lines = []
        self.curloc = None

    def lname(self, n):
        if n not in self.names:
            s = 'v_' + san(n)
            while s in self.used:
                s += '_'
            self.used.add(s)
            self.names[n] = s
        return self.names[n]

    def label(self, n):
        return 'L_' + san(n)

    def declare(self, n, t):
        if n in self.types:
            return
        self.types[n] = t
        self.decl.append('  %s %s;' % (self.E.ct(t), self.lname(n)))

    def w(self, s, dbg=None):
        if dbg is not None and self.E.o.get('lines', True):
            l = self.E.loc(dbg)
            if l is not None and l != self.curloc:
                self.lines.append('#line %d "%s"' % l)
                self.curloc = l
        self.lines.append('  ' + s)

    def V(self, v):
        return self.E.val(v, self)

    def emit(self):
        E = self.E
        f = self.f
        for t, nm in f.params:
            self.types[nm] = t
            self.lname(nm)
        blocks = {b.name: b for b in f.blocks}
        # reachability through normal edges only
        reach = set()
        todo = [f.blocks[0].name]
        while todo:
            n = todo.pop()
            if n in reach:
                continue
            reach.add(n)
            b = blocks[n]
            term = b.insts[-1] if b.insts else None
            if term is None:
                continue
            if term.op == 'br':
                todo += term.x
            elif term.op == 'switch':
                todo.append(term.x[0]); todo += [l for v, l in term.x[1]]
            elif term.op == 'invoke':
                todo.append(term.x['normal'])
        self.reach = reach
        self.blocks = blocks
        self.first_cast = {}
        self.defs = {}
        for b in f.blocks:
            for ins in b.insts:
                if ins.dst is not None:
                    self.defs[ins.dst] = ins
                if ins.op == 'bitcast' and ins.ops[0].k == 'local' and ins.t.k == 'ptr':
                    self.first_cast.setdefault(ins.ops[0].a, ins.t.a)
        for b in f.blocks:
            if b.name not in reach:
                continue
            self.lines.append('%s: ;' % self.label(b.name))
            for ins in b.insts:
                self.inst(b, ins)
        hdr = ('static ' if f.name != E.entry else '') + E.proto(f, True)
        # params use lname mapping: proto used v_<san(nm)>, same as lname for first use
        body = [hdr, '{'] + self.decl + self.lines + ['}']
        if E.o.get('lines', True):
            body.append('#line 1 "ir2c-generated"')
        return '\n'.join(body) + '\n'

    def goto(self, frm, to):
        """edge frm->to with phi copies"""
        b = self.blocks[to]
        phis = [i for i in b.insts if i.op == 'phi']
        if not phis:
            return 'goto %s;' % self.label(to)
        cps = []
        for p in phis:
            src = None
            for v, lab in p.x:
                if lab == frm:
                    src = v
                    break
            if src is None:
                raise Unsupported('phi without incoming for edge %s->%s' % (frm, to))
            self.declare(p.dst, p.t)
            cps.append((p, src))
        if len(cps) == 1:
            p, src = cps[0]
            return '{ %s = %s; goto %s; }' % (self.lname(p.dst), self.V(src), self.label(to))
        s = '{ '
        for i, (p, src) in enumerate(cps):
            s += '%s t%d = %s; ' % (self.E.ct(p.t), i, self.V(src))
        for i, (p, src) in enumerate(cps):
            s += '%s = t%d; ' % (self.lname(p.dst), i)
        return s + 'goto %s; }' % self.label(to)

    def assign(self, ins, t, expr):
        self.declare(ins.dst, t)
        self.w('%s = %s;' % (self.lname(ins.dst), expr), ins.dbg)

    def inst(self, b, ins):
        E = self.E
        op = ins.op
        if op in BINOPS:
            self.assign(ins, ins.t, E.binop(op, ins.t, self.V(ins.ops[0]), self.V(ins.ops[1]), ins.flags))
        elif op == 'fneg':
            self.assign(ins, ins.t, '(-%s)' % self.V(ins.ops[0]))
        elif op in CASTS:
            self.assign(ins, ins.t, E.cast(op, ins.ops[0].t, ins.t, self.V(ins.ops[0])))
        elif op == 'icmp':
            self.assign(ins, I1, E.icmp(ins.x, ins.ops[0].t, self.V(ins.ops[0]), self.V(ins.ops[1])))
        elif op == 'fcmp':
            self.assign(ins, I1, E.fcmp(ins.x, self.V(ins.ops[0]), self.V(ins.ops[1])))
        elif op == 'load':
            e = '(*%s)' % self.V(ins.ops[0])
            if ins.t.k == 'int' and ins.t.a == 1:
                e = '((u8)(%s & 1))' % e
            self.assign(ins, ins.t, e)
        elif op == 'store':
            val, ptr = ins.ops[0], ins.ops[1]
            done_split = False
            # A wide integer store through a pointer that was bitcast from an array of narrower
            # integers (clang merges `int a[2] = {-1,-1}` into one i64 store): emit element stores so
            # that CBMC keeps the elements as separate constants instead of a byte_update.
            if val.t.k == 'int' and ptr.k == 'local' and ptr.a in getattr(self, 'alloca_agg', {}):
                at, an = self.alloca_agg[ptr.a]
                ew = at.b.a
                if ew in (8, 16, 32) and val.t.a > ew and val.t.a % ew == 0 and at.a * ew >= val.t.a:
                    tmp = 'sp_' + san(ptr.a) + '_%d' % len(self.lines)
                    self.decl.append('  %s %s;' % (E.ct(val.t), tmp))
                    self.w('%s = %s;' % (tmp, self.V(val)), ins.dbg)
                    for k in range(val.t.a // ew):
                        self.w('%s.a[%d] = (%s)(%s >> %d);' % (an, k, E.ct(at.b), tmp, k * ew))
                    done_split = True
            if not done_split and val.t.k == 'int' and ptr.k == 'local' and ptr.a in self.defs:
                d = self.defs[ptr.a]
                if d.op == 'bitcast' and d.ops[0].t.k == 'ptr' and d.ops[0].t.a.k == 'arr' and d.ops[0].t.a.b.k == 'int':
                    at = d.ops[0].t.a
                    ew = at.b.a
                    if ew in (8, 16, 32) and val.t.a in (16, 32, 64) and val.t.a > ew and val.t.a % ew == 0 and at.a * ew >= val.t.a:
                        n = val.t.a // ew
                        src = self.V(d.ops[0])
                        v = self.V(val)
                        tmp = 'sp_' + san(ptr.a) + '_%d' % len(self.lines)
                        self.decl.append('  %s %s;' % (E.ct(val.t), tmp))
                        self.w('%s = %s;' % (tmp, v), ins.dbg)
                        for k in range(n):
                            self.w('(*%s).a[%d] = (%s)(%s >> %d);' % (src, k, E.ct(at.b), tmp, k * ew))
                        done_split = True
            if not done_split:
                self.w('*%s = %s;' % (self.V(ptr), self.V(val)), ins.dbg)
        elif op == 'getelementptr':
            e, rt = E.gep(ins.x, ins.ops, self)
            self.assign(ins, PTR(rt), e)
        elif op == 'alloca':
            an = 'a_' + san(ins.dst)
            while an in self.used:
                an += '_'
            self.used.add(an)
            if ins.ops and not (ins.ops[0].k == 'int' and ins.ops[0].a == 1):
                cnt = ins.ops[0]
                if cnt.k == 'int':
                    self.decl.append('  %s %s[%d];' % (E.ct(ins.t), an, cnt.a))
                    self.assign(ins, PTR(ins.t), '&%s[0]' % an)
                else:
                    self.assign(ins, PTR(ins.t), '(%s*)ir_new(sizeof(%s) * (u64)%s)' % (E.ct(ins.t), E.ct(ins.t), self.V(cnt)))
            else:
                agg = self.first_cast.get(ins.dst)
                if ins.t.k == 'int' and agg is not None and agg.k == 'arr' and agg.b.k == 'int' and \
                        E.sizeof(agg) and E.sizeof(agg)[0] == E.sizeof(ins.t)[0]:
                    # SROA typed this slot as one wide integer although the code uses it as a small
                    # array: declare the array and view it as the integer (keeps element accesses typed)
                    self.decl.append('  %s %s;' % (E.ct(agg), an))
                    self.alloca_agg = getattr(self, 'alloca_agg', {})
                    self.alloca_agg[ins.dst] = (agg, an)
                    self.assign(ins, PTR(ins.t), '(%s*)&%s' % (E.ct(ins.t), an))
                else:
                    self.decl.append('  %s %s;' % (E.ct(ins.t), an))
                    self.assign(ins, PTR(ins.t), '&' + an)
                    if ins.t.k == 'int' and agg is not None and agg.k == 'struct':
                        # SROA turned a small by-value struct (e.g. OpnChannel::Location: u16, u8, 1 padding byte) into ONE
                        # integer slot that is written field-wise through narrower pointers and read back whole.  With an
                        # arbitrary initial value CBMC keeps byte_update(byte_update(nondet,..)..) terms that its simplifier
                        # cannot fold, every comparison of two copies becomes symbolic and list searches return if-then-else
                        # pointers.  The bytes no store covers (padding) are therefore zero instead of arbitrary; a read of a
                        # never-written FIELD of such a slot would be hidden by this (stated in DESIGN.md section 3).
                        self.w('%s = 0;' % an, ins.dbg)
        elif op == 'phi':
            self.declare(ins.dst, ins.t)
        elif op == 'select':
            self.assign(ins, ins.t, '(%s ? %s : %s)' % (self.V(ins.ops[0]), self.V(ins.ops[1]), self.V(ins.ops[2])))
        elif op in ('call', 'invoke'):
            self.call(b, ins)
        elif op == 'ret':
            if ins.ops:
                self.w('return %s;' % self.V(ins.ops[0]), ins.dbg)
            else:
                self.w('return;', ins.dbg)
        elif op == 'br':
            if len(ins.x) == 1:
                self.w(self.goto(b.name, ins.x[0]), ins.dbg)
            else:
                self.w('if (%s) %s else %s' % (self.V(ins.ops[0]), self.goto(b.name, ins.x[0]), self.goto(b.name, ins.x[1])), ins.dbg)
        elif op == 'switch':
            d, cases = ins.x
            c = ins.ops[0]
            s = 'switch (%s) { ' % self.V(c)
            seen = set()
            for v, lab in cases:
                if v.a in seen:
                    continue
                seen.add(v.a)
                s += 'case %s: %s ' % (E.intlit(c.t.a, v.a).replace('((%s)' % E.ct(c.t), '(').rstrip(), self.goto(b.name, lab))
            s += 'default: %s }' % self.goto(b.name, d)
            self.w(s, ins.dbg)
        elif op == 'unreachable':
            self.w('IR_UNREACHABLE();', ins.dbg)
        elif op == 'extractvalue':
            t = ins.ops[0].t
            e = self.V(ins.ops[0])
            for ix in ins.x:
                e += '.f%d' % ix if t.k in ('struct', 'lit') else '.a[%d]' % ix
                t = E.elem_type(t, ix)
            self.assign(ins, t, e)
        elif op == 'insertvalue':
            t = ins.ops[0].t
            self.declare(ins.dst, t)
            self.w('%s = %s;' % (self.lname(ins.dst), self.V(ins.ops[0])), ins.dbg)
            e = self.lname(ins.dst)
            tt = t
            for ix in ins.x:
                e += '.f%d' % ix if tt.k in ('struct', 'lit') else '.a[%d]' % ix
                tt = E.elem_type(tt, ix)
            self.w('%s = %s;' % (e, self.V(ins.ops[1])))
        elif op == 'freeze':
            self.assign(ins, ins.t, self.V(ins.ops[0]))
        elif op in ('landingpad', 'resume'):
            self.w('IR_UNREACHABLE();')
        elif op == 'unsupported':
            self.w('IR_UNSUPPORTED("instruction %s");' % ins.x)
        else:
            raise Unsupported('instruction ' + op)

    def call(self, b, ins):
        E = self.E
        callee = ins.ops[0]
        args = ins.ops[1:]
        rt = ins.t
        name = callee.a if callee.k == 'global' else None
        if name and name.startswith('\\01'):
            name = name[3:]
        seen = 0
        while name is not None and name in E.m.aliases and seen < 8:
            av = E.m.aliases[name]
            seen += 1
            if av.k == 'global':
                name = av.a
            elif av.k == 'cexpr' and av.b[1] and av.b[1][0].k == 'global':
                name = av.b[1][0].a
            else:
                break
        expr = None
        done = False
        A = [self.V(a) for a in args]
        if name and name.startswith('llvm.'):
            if name.startswith(DROP_INTRINSICS):
                done = True
            elif name.startswith('llvm.memcpy') or name.startswith('llvm.memmove') or name.startswith('llvm.memset'):
                fnm = name.split('.')[1]
                n = A[2]
                typed = None
                if args[2].k == 'int' and 0 < args[2].a <= 4096:
                    N = args[2].a
                    typed = self.origin_type(args[0], N)
                    if typed is None and fnm != 'memset':
                        typed = self.origin_type(args[1], N)
                tl = None
                if typed is None and args[2].k == 'int' and 0 < args[2].a <= 16384:
                    N = args[2].a
                    if fnm == 'memset' and args[1].k == 'int':
                        tl = self.tiles(args[0], N)
                        if tl is not None:
                            bv = args[1].a & 0xff
                            ok = True
                            stm = []
                            for acc, ty in tl[2]:
                                if E.is_agg(ty):
                                    if bv != 0:
                                        ok = False; break
                                    stm.append('%s = (%s){0};' % (acc, E.ct(ty)))
                                elif ty.k == 'int':
                                    w = max(8, ty.a)
                                    stm.append('%s = %s;' % (acc, E.intlit(ty.a, int.from_bytes(bytes([bv]) * (w // 8), 'little'))))
                                elif bv == 0:
                                    stm.append('%s = (%s)0;' % (acc, E.ct(ty)))
                                else:
                                    ok = False; break
                            if ok:
                                for st in stm:
                                    self.w(st, ins.dbg)
                                done = True
                    elif fnm != 'memset':
                        td = self.tiles(args[0], N)
                        ts = self.tiles(args[1], N)
                        if td is not None and ts is not None and len(td[2]) == len(ts[2]) and \
                                all(a[1].key() == b[1].key() for a, b in zip(td[2], ts[2])):
                            if len(td[2]) == 1:
                                self.w('%s = %s;' % (td[2][0][0], ts[2][0][0]), ins.dbg)
                            else:
                                # copy through temporaries only if the ranges could overlap (memmove); plain order is fine for memcpy
                                for (da, dt), (sa, st_) in zip(td[2], ts[2]):
                                    self.w('%s = %s;' % (da, sa), ins.dbg)
                            done = True
                if done:
                    pass
                elif typed is not None and fnm == 'memset' and args[1].k == 'int' and args[1].a == 0:
                    ctn = E.ct(typed)
                    if E.is_agg(typed):
                        self.w('*(%s*)%s = (%s){0};' % (ctn, A[0], ctn), ins.dbg)
                    else:
                        self.w('*(%s*)%s = (%s)0;' % (ctn, A[0], ctn), ins.dbg)
                    done = True
                elif typed is not None and fnm != 'memset':
                    ctn = E.ct(typed)
                    self.w('*(%s*)%s = *(%s*)%s;' % (ctn, A[0], ctn, A[1]), ins.dbg)
                    done = True
                elif fnm == 'memset':
                    self.w('if (%s != 0) memset((void*)%s, (int)%s, (size_t)%s);' % (n, A[0], A[1], n), ins.dbg)
                elif E.o.get('small_memmove'):
                    # byte-wise copy for short runs: CBMC's memcpy/memmove model loses the concrete bytes of small arrays
                    self.w('ir_smallmove((u8*)%s, (const u8*)%s, (u64)%s);' % (A[0], A[1], n), ins.dbg)
                else:
                    self.w('if (%s != 0) %s((void*)%s, (const void*)%s, (size_t)%s);' % (n, fnm, A[0], A[1], n), ins.dbg)
                done = True
            elif re.match(r'llvm\.(umax|umin|smax|smin)\.', name):
                k = name.split('.')[1]
                t = args[0].t
                if k[0] == 'u':
                    c = E.icmp('ugt' if k == 'umax' else 'ult', t, A[0], A[1])
                else:
                    c = E.icmp('sgt' if k == 'smax' else 'slt', t, A[0], A[1])
                expr = '(%s ? %s : %s)' % (c, A[0], A[1])
            elif name.startswith('llvm.abs.'):
                t = args[0].t
                expr = '(%s ? %s : %s)' % (E.icmp('slt', t, A[0], E.intlit(t.a, 0)), E.binop('sub', t, E.intlit(t.a, 0), A[0], ()), A[0])
            elif re.match(r'llvm\.(umul|uadd|usub)\.with\.overflow\.i(32|64)', name):
                k = name.split('.')[1]
                t = args[0].t
                lt = rt
                self.declare(ins.dst, lt)
                d = self.lname(ins.dst)
                if k == 'umul':
                    W = 'u128' if t.a == 64 else 'u64'
                    self.w('{ %s p = (%s)%s * (%s)%s; %s.f0 = (%s)p; %s.f1 = (u8)((p >> %d) != 0); }' %
                           (W, W, A[0], W, A[1], d, E.ct(t), d, t.a), ins.dbg)
                elif k == 'uadd':
                    self.w('{ %s.f0 = %s; %s.f1 = (u8)(%s.f0 < %s); }' % (d, E.binop('add', t, A[0], A[1], ()), d, d, A[0]), ins.dbg)
                else:
                    self.w('{ %s.f0 = %s; %s.f1 = (u8)(%s < %s); }' % (d, E.binop('sub', t, A[0], A[1], ()), d, A[0], A[1]), ins.dbg)
                done = True
            elif re.match(r'llvm\.(fabs|floor|ceil|round|trunc|sqrt|exp|exp2|log|log2|log10|sin|cos|pow|rint|nearbyint|copysign|fma|maxnum|minnum)\.f(32|64)', name):
                k = name.split('.')[1]
                suf = 'f' if name.endswith('f32') else ''
                k = {'maxnum': 'fmax', 'minnum': 'fmin'}.get(k, k)
                if not suf:
                    k = {'exp': 'ir_exp', 'log': 'ir_log', 'sin': 'ir_sin', 'pow': 'ir_pow', 'sqrt': 'ir_sqrt', 'exp2': 'ir_exp2'}.get(k, k)
                expr = '%s%s(%s)' % (k, suf, ', '.join(A))
            elif name.startswith('llvm.bswap.'):
                t = args[0].t
                expr = {16: '__builtin_bswap16', 32: '__builtin_bswap32', 64: '__builtin_bswap64'}[t.a] + '(%s)' % A[0]
            elif name.startswith('llvm.trap') or name.startswith('llvm.debugtrap'):
                self.w('IR_ASSERT(0, "llvm.trap reached"); IR_ASSUME(0);', ins.dbg)
                done = True
            elif name.startswith('llvm.stacksave'):
                expr = '((u8*)0)'
            elif name.startswith('llvm.fshl.') or name.startswith('llvm.fshr.'):
                t = args[0].t
                w = t.a
                W = 'u128' if w == 64 else 'u64'
                sh = '(%s %% %d)' % (A[2], w)
                if 'fshl' in name:
                    expr = E.mask(t, '((((%s)%s << %d) | (%s)%s) << %s) >> %d' % (W, A[0], w, W, A[1], sh, w))
                else:
                    expr = E.mask(t, '(((%s)%s << %d) | (%s)%s) >> %s' % (W, A[0], w, W, A[1], sh))
            else:
                self.w('IR_UNSUPPORTED("intrinsic %s");' % name, ins.dbg)
                if rt.k != 'void':
                    self.declare(ins.dst, rt)
                done = True
        elif name and name.startswith('__CPROVER_assert'):
            msg = self.strlit(args[1])
            self.w('__CPROVER_assert(%s, %s);' % (A[0], msg), ins.dbg)
            done = True
        elif name and name.startswith('__CPROVER_assume'):
            self.w('__CPROVER_assume(%s);' % A[0], ins.dbg)
            done = True
        elif name and (name in BUILTIN_EXTERNS or re.match(r'_ZSt\d+__throw_', name)) and \
                not (name in E.m.funcs and E.m.funcs[name].defined):
            tgt = BUILTIN_EXTERNS.get(name, 'ir_throw')
            if tgt in ('ir_new',):
                expr = '(%s)ir_new(%s)' % (E.ct(rt), A[0])
                ty = self.first_cast.get(ins.dst) if name != '__cxa_allocate_exception' else None
                sz = E.sizeof(ty) if ty is not None and ty.k not in ('void', 'func', 'opaque') else None
                if sz and sz[0] > 0 and not (ty.k == 'int' and ty.a == 8):
                    cty = E.ct(ty)
                    if args[0].k == 'int' and args[0].a % sz[0] == 0 and args[0].a > 0:
                        kk = args[0].a // sz[0]
                        expr = '(%s)(%s*)malloc(sizeof(%s)%s)' % (E.ct(rt), cty, cty, '' if kk == 1 else ' * %d' % kk)
                    elif args[0].k != 'int':
                        # allocator<T>::allocate(n) / new T[n]: the size is n*sizeof(T); written so that
                        # CBMC's allocation model sees sizeof(T)*count and creates a typed array object
                        expr = '(%s)(%s*)malloc(sizeof(%s) * (%s / sizeof(%s)))' % (E.ct(rt), cty, cty, A[0], cty)
            elif tgt in ('ir_delete', 'ir_guard_release'):
                expr = '%s((void*)%s)' % (tgt, A[0])
            elif tgt == 'ir_guard_acquire':
                expr = '(u32)ir_guard_acquire((void*)%s)' % A[0]
            elif tgt == 'ir_begin_catch':
                expr = '(%s)ir_begin_catch((void*)%s)' % (E.ct(rt), A[0])
            elif tgt == 'memcmp':
                expr = '(u32)memcmp((const void*)%s, (const void*)%s, (size_t)%s)' % tuple(A[:3])
            elif tgt == 'ir_atexit':
                expr = '(u32)ir_atexit()'
            else:
                expr = '%s()' % tgt
            if rt.k == 'void' or ins.dst is None:
                self.w(expr + ';', ins.dbg)
                done = True
        elif name and name in LIBC and not (name in E.m.funcs and E.m.funcs[name].defined):
            cargs = []
            for a, s in zip(args, A):
                if a.t.k == 'ptr':
                    cargs.append('(void*)' + s)
                elif a.t.k == 'int' and name in ('abs', 'labs', 'exit', 'toupper', 'tolower', 'isalpha', 'isdigit', 'isspace'):
                    cargs.append(E.sx(a.t, s))
                else:
                    cargs.append(s)
            cname_ = {'exp': 'ir_exp', 'log': 'ir_log', 'sin': 'ir_sin', 'pow': 'ir_pow', 'sqrt': 'ir_sqrt', 'exp2': 'ir_exp2'}.get(name, name)
            expr = '%s(%s)' % (cname_, ', '.join(cargs))
            if name in ('memmove', 'memcpy') and E.o.get('small_memmove') and len(A) == 3:
                expr = '(ir_smallmove((u8*)%s, (const u8*)%s, (u64)%s), (u8*)%s)' % (A[0], A[1], A[2], A[0])
            if name == 'malloc' and ins.dst is not None and args[0].k == 'int':
                ty = self.first_cast.get(ins.dst)
                sz = E.sizeof(ty) if ty is not None and ty.k not in ('void', 'func', 'opaque') else None
                if sz and sz[0] > 0 and args[0].a % sz[0] == 0 and args[0].a > 0 and not (ty.k == 'int' and ty.a == 8):
                    kk = args[0].a // sz[0]
                    expr = '(%s*)malloc(sizeof(%s)%s)' % (E.ct(ty), E.ct(ty), '' if kk == 1 else ' * %d' % kk)
            if rt.k != 'void':
                expr = '((%s)%s)' % (E.ct(rt), expr)
        if not done and expr is None and name and name.startswith('nondet_') and rt.k != 'void' and ins.dst is not None:
            # route through a recognisable global so the value shows up in CBMC traces
            E.nd_kinds = getattr(E, 'nd_kinds', {})
            E.nd_kinds[name[7:]] = E.ct(rt)
            E.called.add(name)
            self.declare(ins.dst, rt)
            self.w('nd_log_%s = %s(); %s = nd_log_%s;' % (name[7:], name, self.lname(ins.dst), name[7:]), ins.dbg)
            done = True
        if not done and expr is None:
            # ordinary call
            if name is not None:
                E.called = getattr(E, 'called', set())
                E.called.add(name)
                f = E.m.funcs.get(name)
                if f is None:
                    raise Unsupported('call to unknown @' + name)
                fty_params = [t for t, nm in f.params]
                cas = []
                for i, (a, s) in enumerate(zip(args, A)):
                    if i < len(fty_params) and fty_params[i].key() != a.t.key():
                        cas.append('(%s)%s' % (E.ct(fty_params[i]), s))
                    else:
                        cas.append(s)
                expr = '%s(%s)' % (E.func_cname(f), ', '.join(cas))
                if rt.k != 'void' and f.ret.key() != rt.key():
                    expr = '(%s)%s' % (E.ct(rt), expr)
            else:
                # indirect
                if ins.x['fty'] is not None:
                    fty = ins.x['fty']
                else:
                    fty = T('func', rt, tuple(a.t for a in args), False)
                ce = self.V(callee)
                expr = '((%s*)%s)(%s)' % (E.ct(fty), ce, ', '.join(A))
        if not done:
            if rt.k == 'void' or ins.dst is None:
                self.w(expr + ';', ins.dbg)
            else:
                self.assign(ins, rt, expr)
        if ins.op == 'invoke':
            self.w(self.goto(b.name, ins.x['normal']))

    def origin(self, v, depth=0):
        """(C expression of type Tb*, Tb, constant index path) describing where the i8* value v points"""
        E = self.E
        if depth > 6:
            return None
        if v.k == 'local' and v.a in self.defs:
            d = self.defs[v.a]
            if d.op == 'bitcast' and d.ops[0].t.k == 'ptr':
                src = d.ops[0]
                if src.t.a.k == 'int' and src.t.a.a == 8:
                    return self.origin(src, depth + 1)
                o = self.origin(src, depth + 1)
                if o is not None:
                    return o
                if src.t.a.k in ('void', 'func', 'opaque'):
                    return None
                return (self.V(src), src.t.a, [])
            if d.op == 'getelementptr':
                ops = d.ops
                bt = d.x
                if bt.k not in ('struct', 'lit', 'arr'):
                    return None
                # re-base at the last non-constant index
                idxs = ops[1:]
                last_nc = -1
                for i, ix in enumerate(idxs):
                    if ix.k not in ('int', 'zero'):
                        last_nc = i
                if last_nc <= 0 and (idxs[0].k == 'zero' or (idxs[0].k == 'int' and idxs[0].a == 0)) and last_nc < 0:
                    path = [(ix.a if ix.k == 'int' else 0) for ix in idxs[1:]]
                    return (self.V(ops[0]), bt, path)
                # prefix GEP up to and including the last non-constant index (or non-zero first index)
                cut = max(last_nc, 0) + 1
                pre_e, pre_t = E.gep(bt, [ops[0]] + list(idxs[:cut]), self)
                rest = idxs[cut:]
                if pre_t.k in ('void', 'func', 'opaque'):
                    return None
                path = [(ix.a if ix.k == 'int' else 0) for ix in rest]
                return (pre_e, pre_t, path)
            return None
        if v.k == 'cexpr' and v.a == 'bitcast' and v.b[1][0].t.k == 'ptr':
            src = v.b[1][0]
            if src.t.a.k in ('void', 'func', 'opaque'):
                return None
            o = self.origin(src, depth + 1)
            return o if o is not None else (self.V(src), src.t.a, [])
        if v.k == 'cexpr' and v.a == 'getelementptr':
            bt, ops = v.b
            if all(o.k in ('int', 'zero') for o in ops[1:]) and (ops[1].k == 'zero' or ops[1].a == 0) and bt.k in ('struct', 'lit', 'arr'):
                return (self.V(ops[0]), bt, [(o.a if o.k == 'int' else 0) for o in ops[2:]])
        if v.k == 'global' and v.t.k == 'ptr' and v.t.a.k in ('struct', 'lit', 'arr'):
            return (self.V(v), v.t.a, [])
        return None

    def path_offset(self, t, path):
        E = self.E
        off = 0
        for ix in path:
            if t.k in ('struct', 'lit'):
                b = E.struct_body(t)
                if b is None:
                    return None
                o = 0
                for j, mt in enumerate(b.b):
                    r = E.sizeof(mt)
                    if r is None:
                        return None
                    ma = 1 if b.a else r[1]
                    o = (o + ma - 1) // ma * ma
                    if j == ix:
                        break
                    o += r[0]
                off += o
                t = b.b[ix]
            elif t.k == 'arr':
                r = E.sizeof(t.b)
                if r is None:
                    return None
                off += r[0] * ix
                t = t.b
            else:
                return None
        return off

    def cover(self, t, acc, off, start, end, out, budget):
        """collect (accessor, type) of whole sub-objects of t (at byte offset off) tiling [start,end)"""
        E = self.E
        r = E.sizeof(t)
        if r is None:
            return False
        size = r[0]
        if size == 0 or off >= end or off + size <= start:
            return True
        if start <= off and off + size <= end:
            out.append((acc, t))
            return len(out) <= budget
        if t.k in ('struct', 'lit'):
            b = E.struct_body(t)
            if b is None:
                return False
            o = 0
            for j, mt in enumerate(b.b):
                rr = E.sizeof(mt)
                if rr is None:
                    return False
                ma = 1 if b.a else rr[1]
                o = (o + ma - 1) // ma * ma
                if not self.cover(mt, acc + '.f%d' % j, off + o, start, end, out, budget):
                    return False
                o += rr[0]
            return True
        if t.k == 'arr':
            rr = E.sizeof(t.b)
            if rr is None or rr[0] == 0:
                return False
            first = max(0, (start - off) // rr[0])
            last = min(t.a, (end - off + rr[0] - 1) // rr[0])
            if last - first > 600:
                return False
            for i in range(first, last):
                if not self.cover(t.b, acc + '.a[%d]' % i, off + i * rr[0], start, end, out, budget):
                    return False
            return True
        return False   # a scalar that is only partially covered

    def tiles(self, v, n):
        o = self.origin(v)
        if o is None:
            return None
        e, t, path = o
        off = self.path_offset(t, path)
        if off is None:
            return None
        out = []
        if not self.cover(t, '(*%s)' % e, 0, off, off + n, out, 700):
            return None
        if not out:
            return None
        return (t, off, out)

    def origin_type(self, v, size):
        """For an i8* operand of memcpy/memset: a type T with sizeof(T)==size that the pointer
        really points at (so that the operation can be a typed assignment), or None."""
        E = self.E
        cands = []
        if v.k == 'local' and v.a in self.defs:
            d = self.defs[v.a]
            if d.op == 'bitcast' and d.ops[0].t.k == 'ptr':
                cands.append(d.ops[0].t.a)
            elif d.op == 'getelementptr':
                cur = d.x
                last_arr = None
                ok = True
                for ix in d.ops[2:]:
                    if cur.k in ('struct', 'lit'):
                        if ix.k not in ('int', 'zero'):
                            ok = False; break
                        cur = E.elem_type(cur, ix.a if ix.k == 'int' else 0); last_arr = None
                    elif cur.k == 'arr':
                        last_arr = (cur, ix); cur = cur.b
                    else:
                        ok = False; break
                if ok and last_arr is not None and (last_arr[1].k == 'zero' or (last_arr[1].k == 'int' and last_arr[1].a == 0)):
                    cands.append(last_arr[0])
                if ok:
                    cands.append(cur)
        elif v.k == 'cexpr' and v.a == 'bitcast' and v.b[1][0].t.k == 'ptr':
            cands.append(v.b[1][0].t.a)
        elif v.k == 'cexpr' and v.a == 'getelementptr':
            bt, ops = v.b
            if all(o.k in ('int', 'zero') and (o.k == 'zero' or o.a == 0) for o in ops[1:]):
                cands.append(bt)
        for t in cands:
            if t.k in ('void', 'func', 'opaque'):
                continue
            sz = E.sizeof(t)
            if sz and sz[0] == size and size > 0:
                return t
            # first member chains: struct whose first field has the size
            cur = t
            for _ in range(6):
                if cur.k in ('struct', 'lit'):
                    b = E.struct_body(cur)
                    if b is None or not b.b:
                        break
                    cur = b.b[0]
                elif cur.k == 'arr':
                    cur = cur.b
                else:
                    break
                sz = E.sizeof(cur)
                if sz and sz[0] == size and cur.k in ('struct', 'lit', 'arr'):
                    return cur
        return None

    def strlit(self, v):
        """resolve an i8* constant pointing at a constant string global to a C string literal"""
        g = None
        if v.k == 'cexpr' and v.a in ('getelementptr', 'bitcast'):
            base = v.b[1][0]
            if base.k == 'global':
                g = self.E.m.globals.get(base.a)
        elif v.k == 'global':
            g = self.E.m.globals.get(v.a)
        if g is not None and g.init is not None and g.init.k == 'cstr':
            s = g.init.a.split(b'\0')[0].decode('latin1')
            return '"' + re.sub(r'[^ -~]|["\\]', '?', s) + '"'
        return '"PROP: (message not constant)"'


def collect_addr_taken(mod):
    at = set()

    def walk(v):
        if v is None:
            return
        if v.k == 'global' and v.a in mod.funcs:
            at.add(v.a)
        elif v.k == 'agg':
            for e in v.a:
                walk(e)
        elif v.k == 'cexpr':
            for e in v.b[1]:
                walk(e)
    for g in mod.globals.values():
        walk(g.init)
    for f in mod.funcs.values():
        for b in f.blocks:
            for i in b.insts:
                for k, o in enumerate(i.ops):
                    if o is None:
                        continue
                    if i.op in ('call', 'invoke') and k == 0:
                        continue
                    walk(o)
                if i.op == 'phi':
                    for v, l in i.x:
                        walk(v)
    return at


def translate(text, entry, opts=None):
    mod = irparse.parse_module(text)
    if entry not in mod.funcs:
        raise SystemExit('entry %s not found in module' % entry)
    E = Emitter(mod, entry, opts or {})
    E.addr_taken = collect_addr_taken(mod)
    E.called = set()
    return E.run()


def main():
    ap = argparse.ArgumentParser()
    ap.add_argument('inp')
    ap.add_argument('out')
    ap.add_argument('--entry', required=True)
    ap.add_argument('--keep-extern', default=None)
    ap.add_argument('--shift-checks', action='store_true')
    ap.add_argument('--nsw-checks', action='store_true')
    ap.add_argument('--no-lines', action='store_true')
    a = ap.parse_args()
    c = translate(open(a.inp).read(), a.entry, {'keep_extern': a.keep_extern, 'shift_checks': a.shift_checks,
                                                'nsw_checks': a.nsw_checks, 'lines': not a.no_lines})
    open(a.out, 'w').write(c)


if __name__ == '__main__':
    main()
