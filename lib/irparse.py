"""Parser for the textual LLVM 14 IR subset produced by clang++-14 -O1 on the
libOPNMIDI sources.  Produces a Module of types, globals, declarations and
functions with instructions as small Python objects (see ir2c.py)."""
import re

TOK_RE = re.compile(r'''
    (?P<ws>[ \t\r]+)
  | (?P<comment>;[^\n]*)
  | (?P<nl>\n)
  | (?P<cstr>c"[^"]*")
  | (?P<local>%"[^"]*"|%[-a-zA-Z$._0-9]+)
  | (?P<glob>@"[^"]*"|@[-a-zA-Z$._0-9]+)
  | (?P<meta>!"[^"]*"|![-a-zA-Z$._0-9]*)
  | (?P<attr>\#\d+)
  | (?P<str>"[^"]*")
  | (?P<hex>0x[KLMHR]?[0-9A-Fa-f]+)
  | (?P<num>-?\d+\.\d*(?:[eE][+-]?\d+)?|-?\d+)
  | (?P<dots>\.\.\.)
  | (?P<word>[a-zA-Z_$][-a-zA-Z$._0-9]*)
  | (?P<p>[()\[\]{}<>,=*:|])
''', re.X)


def tokenize(text):
    out = []
    pos = 0
    n = len(text)
    while pos < n:
        m = TOK_RE.match(text, pos)
        if not m:
            raise SyntaxError('cannot tokenize at %r' % text[pos:pos + 40])
        pos = m.end()
        k = m.lastgroup
        if k in ('ws', 'comment'):
            continue
        out.append((k, m.group(k)))
    return out


# ------------------------------------------------------------------ types
class T(object):
    __slots__ = ('k', 'a', 'b', 'c')

    def __init__(self, k, a=None, b=None, c=None):
        self.k = k; self.a = a; self.b = b; self.c = c

    def key(self):
        if self.k == 'int': return 'i%d' % self.a
        if self.k in ('float', 'double', 'void', 'label', 'metadata', 'fp80', 'token'): return self.k
        if self.k == 'ptr': return self.a.key() + '*'
        if self.k == 'arr': return '[%d x %s]' % (self.a, self.b.key())
        if self.k == 'vec': return '<%d x %s>' % (self.a, self.b.key())
        if self.k == 'struct': return '%' + self.a
        if self.k == 'lit': return ('<{%s}>' if self.a else '{%s}') % ','.join(t.key() for t in self.b)
        if self.k == 'func': return '%s(%s%s)' % (self.a.key(), ','.join(t.key() for t in self.b), ',...' if self.c else '')
        return self.k

    def __repr__(self):
        return self.key()

    def __eq__(self, o):
        return isinstance(o, T) and self.key() == o.key()

    def __hash__(self):
        return hash(self.key())


VOID = T('void')
I1 = T('int', 1); I8 = T('int', 8); I32 = T('int', 32); I64 = T('int', 64)
DOUBLE = T('double'); FLOAT = T('float')


def PTR(t):
    return T('ptr', t)


# ----------------------------------------------------------------- values
class V(object):
    """k: local|global|int|fp|null|undef|zero|agg|cstr|cexpr|meta|true|false"""
    __slots__ = ('k', 't', 'a', 'b')

    def __init__(self, k, t, a=None, b=None):
        self.k = k; self.t = t; self.a = a; self.b = b

    def __repr__(self):
        return 'V(%s,%s,%r)' % (self.k, self.t, self.a)


class Inst(object):
    __slots__ = ('op', 'dst', 't', 'ops', 'x', 'dbg', 'flags')

    def __init__(self, op, dst=None, t=None, ops=None, x=None, dbg=None, flags=()):
        self.op = op; self.dst = dst; self.t = t; self.ops = ops or []; self.x = x; self.dbg = dbg; self.flags = flags


class Block(object):
    def __init__(self, name):
        self.name = name
        self.insts = []


class Func(object):
    def __init__(self):
        self.name = None; self.ret = None; self.params = []; self.vararg = False
        self.blocks = []; self.linkage = ''; self.dbg = None; self.defined = False


class Global(object):
    def __init__(self):
        self.name = None; self.t = None; self.init = None; self.const = False; self.linkage = ''; self.external = False


class Module(object):
    def __init__(self):
        self.types = {}      # name -> T('lit'...) body or None (opaque)
        self.type_order = []
        self.globals = {}
        self.funcs = {}
        self.md = {}         # '!12' -> raw text
        self.aliases = {}


PARAM_ATTRS = set('''noundef nonnull nocapture readonly readnone writeonly zeroext signext inreg noalias nest returned
 immarg swiftself swifterror nofree inalloca'''.split())
LINKAGE = set('''private internal available_externally linkonce weak common appending extern_weak linkonce_odr weak_odr
 external dso_local dso_preemptable hidden protected default local_unnamed_addr unnamed_addr thread_local
 externally_initialized dllimport dllexport'''.split())
FAST = set('nnan ninf nsz arcp contract afn reassoc fast'.split())


class P(object):
    """Token-stream parser."""

    def __init__(self, toks, mod):
        self.t = toks
        self.i = 0
        self.mod = mod

    def peek(self, o=0):
        j = self.i + o
        return self.t[j] if j < len(self.t) else ('eof', '')

    def next(self):
        x = self.peek()
        self.i += 1
        return x

    def accept(self, val):
        if self.peek()[1] == val:
            self.i += 1
            return True
        return False

    def expect(self, val):
        k, v = self.next()
        if v != val:
            raise SyntaxError('expected %r got %r near %r' % (val, v, [x[1] for x in self.t[max(0, self.i - 8):self.i + 6]]))

    def skip_nl(self):
        while self.peek()[0] == 'nl':
            self.i += 1

    # ---- types
    def type(self):
        k, v = self.next()
        if k == 'word':
            m = re.match(r'i(\d+)$', v)
            if m:
                t = T('int', int(m.group(1)))
            elif v in ('void', 'float', 'double', 'label', 'metadata', 'token'):
                t = T(v)
            elif v == 'x86_fp80':
                t = T('fp80')
            elif v == 'half':
                t = T('float')
            elif v == 'opaque':
                t = T('opaque')
            elif v == 'ptr':
                t = PTR(I8)
            else:
                raise SyntaxError('unknown type word %r' % v)
        elif k == 'local':
            t = T('struct', unq(v[1:]))
        elif v == '[':
            n = int(self.next()[1])
            self.expect('x')
            e = self.type()
            self.expect(']')
            t = T('arr', n, e)
        elif v == '{':
            t = T('lit', False, tuple(self.type_list('}')))
        elif v == '<':
            if self.peek()[1] == '{':
                self.next()
                t = T('lit', True, tuple(self.type_list('}')))
                self.expect('>')
            else:
                n = int(self.next()[1])
                self.expect('x')
                e = self.type()
                self.expect('>')
                t = T('vec', n, e)
        else:
            raise SyntaxError('bad type start %r' % v)
        while True:
            pk = self.peek()[1]
            if pk == '*':
                self.next()
                t = PTR(t)
            elif pk == 'addrspace':
                self.next(); self.expect('('); self.next(); self.expect(')')
            elif pk == '(':
                self.next()
                ps = []
                va = False
                while not self.accept(')'):
                    if self.peek()[0] == 'dots':
                        self.next(); va = True
                    else:
                        ps.append(self.type())
                        self.skip_param_attrs()
                    self.accept(',')
                t = T('func', t, tuple(ps), va)
            else:
                break
        return t

    def type_list(self, close):
        r = []
        while not self.accept(close):
            r.append(self.type())
            self.accept(',')
        return r

    def skip_param_attrs(self):
        while True:
            k, v = self.peek()
            if k == 'word' and v in PARAM_ATTRS:
                self.next()
            elif k == 'word' and v in ('align', ):
                self.next(); self.next()
            elif k == 'word' and v in ('dereferenceable', 'dereferenceable_or_null', 'byval', 'sret', 'byref', 'preallocated', 'elementtype'):
                self.next()
                if self.accept('('):
                    d = 1
                    while d:
                        x = self.next()[1]
                        if x == '(': d += 1
                        elif x == ')': d -= 1
            else:
                break

    # ---- values
    def typed_value(self):
        t = self.type()
        self.skip_param_attrs()
        return self.value(t)

    def value(self, t):
        k, v = self.next()
        if k == 'local':
            return V('local', t, unq(v[1:]))
        if k == 'glob':
            return V('global', t, unq(v[1:]))
        if k == 'num':
            if t.k in ('float', 'double', 'fp80'):
                return V('fp', t, float(v))
            return V('int', t, int(v))
        if k == 'hex':
            return V('fp', t, v)
        if k == 'cstr':
            return V('cstr', t, cstr_bytes(v[2:-1]))
        if k == 'meta':
            # metadata operand: skip balanced
            if self.peek()[1] in ('(', '{'):
                self.skip_balanced()
            return V('meta', t, v)
        if k == 'word':
            if v == 'true': return V('int', t, 1)
            if v == 'false': return V('int', t, 0)
            if v == 'null': return V('null', t)
            if v in ('undef', 'poison'): return V('undef', t)
            if v == 'zeroinitializer': return V('zero', t)
            if v == 'none': return V('null', t)
            if v in ('getelementptr', 'bitcast', 'ptrtoint', 'inttoptr', 'trunc', 'zext', 'sext', 'addrspacecast',
                     'add', 'sub', 'mul', 'and', 'or', 'xor', 'shl', 'lshr', 'ashr', 'icmp', 'select', 'udiv', 'sdiv',
                     'fptosi', 'fptoui', 'sitofp', 'uitofp', 'fpext', 'fptrunc'):
                return self.cexpr(v, t)
            if v == 'blockaddress' or v == 'dso_local_equivalent' or v == 'no_cfi':
                raise SyntaxError('unsupported constant ' + v)
        if v == '{' or v == '[' or v == '<':
            packed = False
            if v == '<' and self.peek()[1] == '{':
                self.next(); packed = True; close = '}'
            else:
                close = {'{': '}', '[': ']', '<': '>'}[v]
            elems = []
            while not self.accept(close):
                elems.append(self.typed_value())
                self.accept(',')
            if packed:
                self.expect('>')
            return V('agg', t, elems)
        raise SyntaxError('bad value %r %r for type %s near %r' % (k, v, t, [x[1] for x in self.t[max(0, self.i - 8):self.i + 6]]))

    def skip_balanced(self):
        d = 0
        while True:
            x = self.next()[1]
            if x in '([{' and len(x) == 1: d += 1
            elif x in ')]}' and len(x) == 1:
                d -= 1
                if d == 0: return

    def cexpr(self, op, t):
        if op == 'getelementptr':
            inb = self.accept('inbounds')
            self.expect('(')
            bt = self.type()
            self.expect(',')
            ops = []
            while not self.accept(')'):
                self.accept('inrange')
                ops.append(self.typed_value())
                self.accept(',')
            return V('cexpr', t, 'getelementptr', (bt, ops))
        if op in ('icmp',):
            pred = self.next()[1]
            self.expect('(')
            a = self.typed_value(); self.expect(','); b = self.typed_value(); self.expect(')')
            return V('cexpr', t, 'icmp', (pred, [a, b]))
        if op == 'select':
            self.expect('(')
            a = self.typed_value(); self.expect(','); b = self.typed_value(); self.expect(','); c = self.typed_value(); self.expect(')')
            return V('cexpr', t, 'select', (None, [a, b, c]))
        if op in ('add', 'sub', 'mul', 'and', 'or', 'xor', 'shl', 'lshr', 'ashr', 'udiv', 'sdiv'):
            while self.peek()[1] in ('nsw', 'nuw', 'exact'):
                self.next()
            self.expect('(')
            a = self.typed_value(); self.expect(','); b = self.typed_value(); self.expect(')')
            return V('cexpr', t, op, (None, [a, b]))
        # casts
        self.expect('(')
        a = self.typed_value()
        self.expect('to')
        tt = self.type()
        self.expect(')')
        return V('cexpr', tt, op, (None, [a]))


def unq(s):
    if s.startswith('"'):
        return s[1:-1]
    return s


def cstr_bytes(s):
    out = bytearray()
    i = 0
    while i < len(s):
        if s[i] == '\\':
            if s[i + 1] == '\\':
                out.append(0x5c); i += 2
            else:
                out.append(int(s[i + 1:i + 3], 16)); i += 3
        else:
            out.append(ord(s[i])); i += 1
    return bytes(out)


# ------------------------------------------------------- module level parse
def parse_module(text):
    mod = Module()
    lines = text.split('\n')
    i = 0
    n = len(lines)
    while i < n:
        l = lines[i]
        if not l or l[0] == ';' or l.startswith('source_filename') or l.startswith('target ') or l.startswith('attributes ') or l[0] == '$':
            i += 1
            continue
        if l[0] == '%':
            m = re.match(r'(%"[^"]*"|%[-a-zA-Z$._0-9]+) = type (.*)$', l)
            name = unq(m.group(1)[1:])
            body = m.group(2).strip()
            if body == 'opaque':
                mod.types[name] = None
            else:
                p = P(tokenize(body), mod)
                mod.types[name] = p.type()
            mod.type_order.append(name)
            i += 1
            continue
        if l[0] == '!':
            m = re.match(r'(![-a-zA-Z$._0-9]+) = (.*)$', l)
            if m:
                mod.md[m.group(1)] = m.group(2)
            i += 1
            continue
        if l[0] == '@':
            parse_global(mod, l)
            i += 1
            continue
        if l.startswith('declare'):
            parse_func_header(mod, l, False)
            i += 1
            continue
        if l.startswith('define'):
            j = i + 1
            while lines[j] != '}':
                j += 1
            f = parse_func_header(mod, l, True)
            parse_body(mod, f, '\n'.join(lines[i + 1:j]))
            i = j + 1
            continue
        i += 1
    return mod


def parse_global(mod, l):
    p = P(tokenize(l), mod)
    name = unq(p.next()[1][1:])
    p.expect('=')
    g = Global()
    g.name = name
    link = []
    while True:
        k, v = p.peek()
        if k == 'word' and v in LINKAGE:
            link.append(v); p.next()
        elif k == 'word' and v == 'thread_local':
            p.next()
            if p.peek()[1] == '(':
                p.skip_balanced()
        elif k == 'word' and v == 'addrspace':
            p.next(); p.skip_balanced()
        else:
            break
    k, v = p.next()
    if v == 'alias':
        t = p.type(); p.expect(',')
        val = p.typed_value()
        mod.aliases[name] = val
        return
    if v == 'ifunc':
        return
    g.const = (v == 'constant')
    g.linkage = ' '.join(link)
    g.t = p.type()
    g.external = 'external' in link or 'extern_weak' in link or 'available_externally' in link
    if not g.external and p.peek()[1] not in (',', '') and p.peek()[0] not in ('eof', 'nl'):
        g.init = p.value(g.t)
    mod.globals[name] = g


def parse_func_header(mod, l, defined):
    p = P(tokenize(l), mod)
    p.next()  # define/declare
    f = Func()
    link = []
    while True:
        k, v = p.peek()
        if k == 'word' and (v in LINKAGE or v in PARAM_ATTRS or v in ('fastcc', 'ccc', 'coldcc', 'noundef')):
            link.append(v); p.next()
        elif k == 'word' and v in ('align', 'cc'):
            p.next(); p.next()
        elif k == 'word' and v in ('dereferenceable', 'dereferenceable_or_null'):
            p.next(); p.skip_balanced()
        elif k == 'meta':
            p.next();
            if p.peek()[0] == 'meta': p.next()
        else:
            break
    f.linkage = ' '.join(link)
    f.ret = p.type_noret_func()
    f.name = unq(p.next()[1][1:])
    p.expect('(')
    idx = 0
    while not p.accept(')'):
        if p.peek()[0] == 'dots':
            p.next(); f.vararg = True
        else:
            t = p.type()
            p.skip_param_attrs()
            nm = None
            if p.peek()[0] == 'local':
                nm = unq(p.next()[1][1:])
            f.params.append((t, nm))
        p.accept(',')
    rest = l[l.rfind(')'):]
    m = re.search(r'!dbg (!\d+)', l)
    if m:
        f.dbg = m.group(1)
    f.defined = defined
    old = mod.funcs.get(f.name)
    if old is None or defined:
        mod.funcs[f.name] = f
    return f


def _type_noret_func(self):
    return self.type()


def _type_base(self):
    return self.type()


def _type_atom(self):
    return self.type()


P.type_noret_func = _type_noret_func
P.type_base = _type_base
P.type_atom = _type_atom


# ------------------------------------------------------------- body parse
BINOPS = set('add sub mul udiv sdiv urem srem shl lshr ashr and or xor fadd fsub fmul fdiv frem'.split())
CASTS = set('trunc zext sext fptoui fptosi uitofp sitofp fptrunc fpext ptrtoint inttoptr bitcast addrspacecast'.split())


def parse_body(mod, f, text):
    toks = tokenize(text)
    p = P(toks, mod)
    # implicit entry label
    cur = Block(None)
    f.blocks.append(cur)
    first = True
    while True:
        p.skip_nl()
        k, v = p.peek()
        if k == 'eof':
            break
        # label?
        if p.peek(1)[1] == ':' and k in ('num', 'word', 'str'):
            name = unq(v)
            p.next(); p.next()
            if first and not cur.insts:
                cur.name = name
            else:
                cur = Block(name)
                f.blocks.append(cur)
            first = False
            continue
        first = False
        ins = parse_inst(p)
        if ins is not None:
            cur.insts.append(ins)
    # name the entry block if unnamed: LLVM numbers it after the params
    if f.blocks[0].name is None:
        nparams = sum(1 for t, nm in f.params)
        # unnamed params take numbers 0..; entry block gets the next number
        cnt = sum(1 for t, nm in f.params if nm is None or re.match(r'\d+$', nm or ''))
        f.blocks[0].name = str(cnt)
    # fix unnamed params
    c = 0
    ps = []
    for t, nm in f.params:
        if nm is None:
            nm = str(c)
        if re.match(r'\d+$', nm):
            c = int(nm) + 1
        ps.append((t, nm))
    f.params = ps


def trailing_md(p):
    """consume ', !dbg !12, !tbaa !3 ...' and ', align N'; returns dbg id."""
    dbg = None
    while p.peek()[1] == ',':
        k2, v2 = p.peek(1)
        if k2 == 'meta':
            p.next(); p.next()
            k3, v3 = p.peek()
            if k3 == 'meta':
                p.next()
                if v2 == '!dbg':
                    dbg = v3
                if p.peek()[1] in ('(', '{') and v3 in ('!', '!DIExpression'):
                    p.skip_balanced()
        elif v2 == 'align':
            p.next(); p.next(); p.next()
        else:
            break
    return dbg


def parse_inst(p):
    k, v = p.next()
    dst = None
    if k == 'local' and p.peek()[1] == '=':
        dst = unq(v[1:])
        p.next()
        k, v = p.next()
    op = v
    if op in ('tail', 'musttail', 'notail'):
        op = p.next()[1]
    ins = None
    if op in BINOPS:
        flags = []
        while p.peek()[1] in ('nsw', 'nuw', 'exact') or p.peek()[1] in FAST:
            flags.append(p.next()[1])
        t = p.type()
        a = p.value(t); p.expect(','); b = p.value(t)
        ins = Inst(op, dst, t, [a, b], flags=tuple(flags))
    elif op == 'fneg':
        while p.peek()[1] in FAST: p.next()
        t = p.type(); a = p.value(t)
        ins = Inst('fneg', dst, t, [a])
    elif op in CASTS:
        a = p.typed_value(); p.expect('to'); t = p.type()
        ins = Inst(op, dst, t, [a])
    elif op in ('icmp', 'fcmp'):
        while p.peek()[1] in FAST: p.next()
        pred = p.next()[1]
        t = p.type()
        a = p.value(t); p.expect(','); b = p.value(t)
        ins = Inst(op, dst, I1, [a, b], x=pred)
    elif op == 'load':
        while p.peek()[1] in ('volatile', 'atomic'): p.next()
        t = p.type(); p.expect(',')
        a = p.typed_value()
        while p.peek()[1] in ('unordered', 'monotonic', 'acquire', 'seq_cst'): p.next()
        ins = Inst('load', dst, t, [a])
    elif op == 'store':
        while p.peek()[1] in ('volatile', 'atomic'): p.next()
        a = p.typed_value(); p.expect(','); b = p.typed_value()
        while p.peek()[1] in ('unordered', 'monotonic', 'release', 'seq_cst'): p.next()
        ins = Inst('store', None, None, [a, b])
    elif op == 'getelementptr':
        inb = p.accept('inbounds')
        bt = p.type(); p.expect(',')
        ops = [p.typed_value()]
        while p.peek()[1] == ',' and p.peek(1)[0] != 'meta':
            p.next()
            p.accept('inrange')
            ops.append(p.typed_value())
        ins = Inst('getelementptr', dst, None, ops, x=bt, flags=('inbounds',) if inb else ())
    elif op == 'alloca':
        p.accept('inalloca')
        t = p.type()
        cnt = None
        if p.peek()[1] == ',' and p.peek(1)[1] != 'align' and p.peek(1)[0] != 'meta':
            p.next()
            cnt = p.typed_value()
        ins = Inst('alloca', dst, t, [cnt] if cnt else [])
    elif op == 'phi':
        while p.peek()[1] in FAST: p.next()
        t = p.type()
        inc = []
        while True:
            p.expect('[')
            val = p.value(t); p.expect(',')
            lab = unq(p.next()[1][1:])
            p.expect(']')
            inc.append((val, lab))
            if p.peek()[1] == ',' and p.peek(1)[1] == '[':
                p.next()
            else:
                break
        ins = Inst('phi', dst, t, [], x=inc)
    elif op == 'select':
        while p.peek()[1] in FAST: p.next()
        c = p.typed_value(); p.expect(','); a = p.typed_value(); p.expect(','); b = p.typed_value()
        ins = Inst('select', dst, a.t, [c, a, b])
    elif op in ('call', 'invoke'):
        while True:
            k2, v2 = p.peek()
            if k2 == 'word' and (v2 in FAST or v2 in PARAM_ATTRS or v2 in ('fastcc', 'ccc', 'coldcc')):
                p.next()
            elif k2 == 'word' and v2 in ('dereferenceable', 'dereferenceable_or_null'):
                p.next(); p.skip_balanced()
            elif k2 == 'word' and v2 == 'align':
                p.next(); p.next()
            else:
                break
        rt = p.type_base()
        # callee: either function type given explicitly (varargs) or just return type
        fty = None
        if rt.k == 'func':
            fty = rt
            rt = fty.a
        callee_t = PTR(fty) if fty else None
        k2, v2 = p.peek()
        callee = p.value(callee_t or PTR(I8))
        p.expect('(')
        args = []
        while not p.accept(')'):
            if p.peek()[0] == 'dots':
                p.next()
            else:
                args.append(p.typed_value())
            p.accept(',')
        # function attrs / operand bundles
        while True:
            k2, v2 = p.peek()
            if k2 == 'attr' or (k2 == 'word' and v2 not in ('to',)):
                p.next()
                if p.peek()[1] == '(':
                    p.skip_balanced()
            elif v2 == '[':
                p.skip_balanced()
            else:
                break
        x = {'fty': fty, 'ret': rt}
        if op == 'invoke':
            p.skip_nl()
            p.expect('to'); p.expect('label'); x['normal'] = unq(p.next()[1][1:])
            p.expect('unwind'); p.expect('label'); x['unwind'] = unq(p.next()[1][1:])
        ins = Inst(op, dst, rt, [callee] + args, x=x)
    elif op == 'ret':
        t = p.type()
        if t.k == 'void':
            ins = Inst('ret', None, t, [])
        else:
            ins = Inst('ret', None, t, [p.value(t)])
    elif op == 'br':
        if p.accept('label'):
            ins = Inst('br', None, None, [], x=[unq(p.next()[1][1:])])
        else:
            c = p.typed_value(); p.expect(','); p.expect('label'); a = unq(p.next()[1][1:])
            p.expect(','); p.expect('label'); b = unq(p.next()[1][1:])
            ins = Inst('br', None, None, [c], x=[a, b])
    elif op == 'switch':
        c = p.typed_value(); p.expect(','); p.expect('label'); d = unq(p.next()[1][1:])
        p.skip_nl(); p.expect('[')
        cases = []
        while True:
            p.skip_nl()
            if p.accept(']'):
                break
            val = p.typed_value(); p.expect(','); p.expect('label'); lab = unq(p.next()[1][1:])
            cases.append((val, lab))
        ins = Inst('switch', None, None, [c], x=(d, cases))
    elif op == 'unreachable':
        ins = Inst('unreachable')
    elif op == 'resume':
        a = p.typed_value()
        ins = Inst('resume', None, None, [a])
    elif op == 'landingpad':
        t = p.type()
        while True:
            p.skip_nl_if_clause()
            k2, v2 = p.peek()
            if v2 == 'cleanup':
                p.next()
            elif v2 in ('catch', 'filter'):
                p.next(); p.typed_value()
            else:
                break
        ins = Inst('landingpad', dst, t, [])
    elif op == 'extractvalue':
        a = p.typed_value()
        idx = []
        while p.peek()[1] == ',' and p.peek(1)[0] == 'num':
            p.next(); idx.append(int(p.next()[1]))
        ins = Inst('extractvalue', dst, None, [a], x=idx)
    elif op == 'insertvalue':
        a = p.typed_value(); p.expect(','); b = p.typed_value()
        idx = []
        while p.peek()[1] == ',' and p.peek(1)[0] == 'num':
            p.next(); idx.append(int(p.next()[1]))
        ins = Inst('insertvalue', dst, a.t, [a, b], x=idx)
    elif op == 'freeze':
        a = p.typed_value()
        ins = Inst('freeze', dst, a.t, [a])
    elif op in ('fence', 'atomicrmw', 'cmpxchg', 'va_arg', 'extractelement', 'insertelement', 'shufflevector',
                'indirectbr', 'callbr', 'catchswitch', 'catchpad', 'cleanuppad', 'catchret', 'cleanupret'):
        # consume the line, mark unsupported
        while p.peek()[0] not in ('nl', 'eof'):
            p.next()
        return Inst('unsupported', dst, None, [], x=op)
    else:
        raise SyntaxError('unknown instruction %r' % op)
    ins.dbg = trailing_md(p)
    # there may be trailing attributes e.g. '#17' already consumed for calls; skip to eol
    while p.peek()[0] not in ('nl', 'eof'):
        p.next()
    return ins


def _skip_nl_if_clause(self):
    j = self.i
    while self.t[j][0] == 'nl':
        j += 1
    if self.t[j][1] in ('cleanup', 'catch', 'filter'):
        self.i = j


P.skip_nl_if_clause = _skip_nl_if_clause
