"""Obligation runner: builds harnesses from /repo's current working tree, runs
CBMC (directly on C, or on C generated from LLVM IR by ir2c), checks witness
twins, replays counterexamples natively, matches known findings and writes the
evidence file.  See /verif/DESIGN.md sections 1.4, 6 and 7."""
import os, sys, json, re, subprocess, time, shutil, hashlib, resource, signal, glob, threading
import concurrent.futures as cf

VERIF = os.path.dirname(os.path.dirname(os.path.abspath(__file__)))
REPO = os.environ.get('VERIF_REPO', '/repo')
HARN = os.path.join(VERIF, 'harness')
NCPU = int(os.environ.get('VERIF_JOBS', str(os.cpu_count() or 4)))
MEM_KB = int(os.environ.get('VERIF_MEM_KB', str(14 * 1024 * 1024)))

REAL_DEFS = ['-DNDEBUG', '-DENABLE_END_SILENCE_SKIPPING', '-DOPNMIDI_MIDI2VGM']
REPO_INCS = ['-I' + os.path.join(REPO, 'include'), '-I' + os.path.join(REPO, 'src')]

CBMC_BASE = ['--unwinding-assertions', '--pointer-overflow-check',
             '--no-malloc-may-fail', '--drop-unused-functions', '--slice-formula',
             '--object-bits', '12']


class Ob(object):
    """One proof obligation (one CBMC query plus its witness twin)."""

    def __init__(self, name, prop, src, engine='c', **kw):
        self.name = name
        self.prop = prop
        self.src = src
        self.engine = engine
        self.entry = kw.pop('entry', 'harness')
        self.defines = kw.pop('defines', [])
        self.tier_defines = kw.pop('tier_defines', {})
        self.unwind = kw.pop('unwind', None)
        self.tier_unwind = kw.pop('tier_unwind', {})
        self.unwindset = kw.pop('unwindset', {})
        self.unwind_funcs = kw.pop('unwind_funcs', {})
        self.flags = kw.pop('flags', [])
        self.tiers = kw.pop('tiers', ('quick', 'thorough'))
        self.termination = kw.pop('termination', False)
        self.witness = kw.pop('witness', True)
        self.timeout = kw.pop('timeout', {'quick': 240, 'thorough': 1800})
        self.repo_tus = kw.pop('repo_tus', [])
        self.remove_bodies = kw.pop('remove_bodies', [])
        self.separate_tus = kw.pop('separate_tus', [])
        self.desc = kw.pop('desc', '')
        self.bounds = kw.pop('bounds', '')
        self.assumptions = kw.pop('assumptions', [])
        self.stubs = kw.pop('stubs', [])
        self.backend = kw.pop('backend', 'default')
        self.std = kw.pop('std', None)
        self.extra_srcs = kw.pop('extra_srcs', [])
        self.native = kw.pop('native', True)
        self.ir_opts = kw.pop('ir_opts', {})
        self.func = kw.pop('func', None)          # engine == 'smt'
        self.ub_only = kw.pop('ub_only', ())
        self.weight = kw.pop('weight', 1)
        self.cost = kw.pop('cost', 1)            # scheduling hint: expensive obligations are started first
        if kw:
            raise TypeError('unknown Ob arguments: %s' % list(kw))

    def in_tier(self, tier):
        return tier in self.tiers

    def all_defines(self, tier):
        return list(self.defines) + list(self.tier_defines.get(tier, []))

    def the_unwind(self, tier):
        return self.tier_unwind.get(tier, self.unwind)


def sh(cmd, timeout=None, cwd=None, env=None, mem_kb=None, stdin=None):
    """Run a command; returns (rc, stdout, stderr, wall, maxrss_kb, timed_out)."""
    def pre():
        os.setsid()
        if mem_kb:
            resource.setrlimit(resource.RLIMIT_AS, (mem_kb * 1024, mem_kb * 1024))
    t0 = time.time()
    p = subprocess.Popen(cmd, stdout=subprocess.PIPE, stderr=subprocess.PIPE, cwd=cwd,
                         env=env, preexec_fn=pre, stdin=subprocess.PIPE if stdin is not None else subprocess.DEVNULL)
    to = False
    try:
        out, err = p.communicate(input=stdin, timeout=timeout)
    except subprocess.TimeoutExpired:
        to = True
        try:
            os.killpg(p.pid, signal.SIGKILL)
        except Exception:
            pass
        out, err = p.communicate()
    wall = time.time() - t0
    try:
        ru = resource.getrusage(resource.RUSAGE_CHILDREN)
        rss = ru.ru_maxrss
    except Exception:
        rss = 0
    return p.returncode, out.decode('utf-8', 'replace'), err.decode('utf-8', 'replace'), wall, rss, to


def src_line(path, line):
    try:
        with open(path, errors='replace') as f:
            for i, l in enumerate(f, 1):
                if i == line:
                    return ' '.join(l.split())
    except Exception:
        pass
    return ''


class Result(object):
    def __init__(self, ob, tier):
        self.ob = ob
        self.tier = tier
        self.status = 'inconclusive'   # pass | fail | inconclusive
        self.reason = ''
        self.failed = []               # list of dicts describing failed CBMC properties
        self.n_props = 0
        self.n_pass = 0
        self.witness_ok = None
        self.wall = 0.0
        self.solver_s = 0.0
        self.rss_kb = 0
        self.functions = []
        self.cmd = ''
        self.unwind_failed = []
        self.tv_vectors = 0
        self.tv_ok = None
        self.steps = 0
        self.vccs = 0
        self.extra = {}

    def sample(self):
        ob = self.ob
        d = {'obligation': ob.name, 'engine': ob.engine, 'result': self.status,
             'description': ob.desc, 'bounds': ob.bounds,
             'unwind': ob.the_unwind(self.tier), 'unwindset': ob.unwindset,
             'defines': ob.all_defines(self.tier),
             'assumptions': ob.assumptions, 'stubs': ob.stubs,
             'properties_checked': self.n_props, 'properties_passed': self.n_pass,
             'witness_reachable': self.witness_ok,
             'functions_encoded': self.functions[:60],
             'n_functions_encoded': len(self.functions),
             'symex_steps': self.steps, 'vccs': self.vccs,
             'solver_s': round(self.solver_s, 2), 'wall_s': round(self.wall, 2),
             'rss_kb': self.rss_kb, 'cmd': self.cmd}
        if self.reason:
            d['reason'] = self.reason
        if self.tv_ok is not None:
            d['translator_validation'] = {'vectors': self.tv_vectors, 'ok': self.tv_ok}
        if self.failed:
            d['failed'] = [{k: f[k] for k in ('id', 'desc', 'function', 'file', 'line', 'text', 'classification') if k in f}
                           for f in self.failed[:20]]
        d.update(self.extra)
        return d


def parse_cbmc_json(txt):
    """Returns (props, status_text, messages) from `cbmc --json-ui` output."""
    try:
        data = json.loads(txt)
    except Exception:
        # truncated output (killed); try to salvage nothing
        return None, None, []
    props = None
    status = None
    msgs = []
    for m in data:
        if not isinstance(m, dict):
            continue
        if 'result' in m:
            props = m['result']
        if 'cProverStatus' in m:
            status = m['cProverStatus']
        if 'messageText' in m:
            msgs.append((m.get('messageType', ''), m['messageText']))
    return props, status, msgs


def nondet_values(trace, with_irm=False):
    vals = []
    for s in trace or []:
        if s.get('stepType') != 'assignment' or s.get('hidden'):
            continue
        lhs = s.get('lhs', '')
        m = re.match(r'return_value_nondet_(\w+?)(\$\d+)?$', lhs) or re.match(r'nd_log_(\w+)$', lhs)
        if not m:
            continue
        if m.group(1).startswith('irm_') and not with_irm:
            continue   # values of the libm envelope stubs: natively libm itself is used
        v = s.get('value', {})
        b = v.get('binary')
        if b is None:
            continue
        vals.append((m.group(1), int(b, 2)))
    return vals


class Runner(object):
    def __init__(self, prop, tier, seed=0, keep=False):
        self.prop = prop
        self.tier = tier
        self.seed = seed
        self.keep = keep
        base = os.environ.get('VERIF_WORK', '/var/tmp/verif-work')
        self.work = os.path.join(base, '%s-%s-%d' % (prop, tier, os.getpid()))
        os.makedirs(self.work, exist_ok=True)
        self.known = load_known()
        self.t0 = time.time()
        # solver processes that may run at the same time (set by run_property); an obligation's witness twin runs
        # alongside its main query when a slot is free, after it otherwise
        self.capacity = 1
        self.busy = 0
        self.slock = threading.Lock()

    def slot_take(self, force):
        with self.slock:
            if force or self.busy < self.capacity:
                self.busy += 1
                return True
            return False

    def slot_give(self):
        with self.slock:
            self.busy -= 1

    def cleanup(self):
        if not self.keep:
            shutil.rmtree(self.work, ignore_errors=True)

    # ---------------------------------------------------------------- build
    def build_c(self, ob, wdir, witness):
        """goto-cc on a C harness (which #includes the repo's C sources)."""
        out = os.path.join(wdir, 'w.gb' if witness else 'h.gb')
        defs = ['-D' + d for d in ob.all_defines(self.tier)]
        if witness:
            defs.append('-DWITNESS')
        cmd = ['goto-cc', '-DVERIF_CBMC', '-std=' + (ob.std or 'gnu90')] + REAL_DEFS + REPO_INCS + ['-I' + HARN] + defs
        srcs = [os.path.join(HARN, ob.src)] + [os.path.join(REPO, t) for t in ob.repo_tus] + \
               [os.path.join(HARN, e) for e in ob.extra_srcs]
        # repo units compiled on their own with their static functions exported, so that a leaf can be
        # cut out (goto-instrument --remove-function-body) and replaced by an obligation stub of the harness
        for i, tu in enumerate(ob.separate_tus):
            part = os.path.join(wdir, 'tu%d%s.gb' % (i, 'w' if witness else ''))
            c1 = ['goto-cc', '-DVERIF_CBMC', '-std=' + (ob.std or 'gnu90')] + REAL_DEFS + REPO_INCS + defs + \
                 ['-c', '--export-file-local-symbols', os.path.join(REPO, tu), '-o', part]
            rc, o, e, w, rss, to = sh(c1, timeout=300)
            if rc != 0:
                return None, 'goto-cc failed on %s: %s' % (tu, (e or o)[-1200:])
            if ob.remove_bodies:
                c2 = ['goto-instrument']
                for f in ob.remove_bodies:
                    c2 += ['--remove-function-body', f]
                c2 += [part, part]
                rc, o, e, w, rss, to = sh(c2, timeout=300)
                if rc != 0:
                    return None, 'goto-instrument failed: ' + (e or o)[-1200:]
            srcs.append(part)
        cmd += srcs + ['-o', out]
        rc, o, e, w, rss, to = sh(cmd, timeout=300)
        if rc != 0:
            return None, 'goto-cc failed: ' + (e or o)[-1500:]
        if ob.remove_bodies and not ob.separate_tus:
            cmd2 = ['goto-instrument']
            for f in ob.remove_bodies:
                cmd2 += ['--remove-function-body', f]
            cmd2 += [out, out]
            rc, o, e, w, rss, to = sh(cmd2, timeout=300)
            if rc != 0:
                return None, 'goto-instrument failed: ' + (e or o)[-1500:]
        return out, ''

    def build_ir(self, ob, wdir, witness):
        from . import irbuild
        return irbuild.build(self, ob, wdir, witness)

    # ------------------------------------------------------------------ run
    def cbmc_cmd(self, ob, gb, witness):
        cmd = ['cbmc', gb, '--function', ob.entry if ob.engine == 'c' else 'verif_entry', '--json-ui']
        cmd += CBMC_BASE
        uw = ob.the_unwind(self.tier)
        if uw is not None:
            cmd += ['--unwind', str(uw)]
        uws = dict(ob.unwindset)
        if ob.unwind_funcs:
            uws.update(self.loops_of(gb, ob.unwind_funcs))
        if uws:
            cmd += ['--unwindset', ','.join('%s:%d' % kv for kv in sorted(uws.items()))]
        cmd += [f for f in ob.flags if f != '--no-slice-formula']
        if '--no-slice-formula' in ob.flags:
            # keep every nondet assignment in the trace (needed when hundreds of input bytes must be replayed in order)
            cmd = [c for c in cmd if c != '--slice-formula']
        if ob.engine == 'ir':
            # -O1 IR forms out-of-object pointers speculatively (select of &a[i-1]); the check is meaningless there
            cmd = [c for c in cmd if c != '--pointer-overflow-check']
            if '--max-field-sensitivity-array-size' not in cmd:
                # the 128-entry instrument array of a bank must stay field-sensitive (constant propagation)
                cmd += ['--max-field-sensitivity-array-size', '130']
        if witness:
            cmd = [c for c in cmd if c not in ('--unwinding-assertions', '--pointer-overflow-check')]
            cmd += ['--no-standard-checks', '--no-unwinding-assertions', '--no-built-in-assertions']
        else:
            cmd += ['--trace']
        be = ob.backend
        if be == 'cadical':
            cmd += ['--sat-solver', 'cadical']
        elif be == 'kissat':
            cmd += ['--external-sat-solver', 'kissat']
        elif be == 'cvc5':
            cmd += ['--cvc5']
        elif be == 'z3':
            cmd += ['--z3']
        return cmd

    def run_ob(self, ob):
        res = Result(ob, self.tier)
        t0 = time.time()
        wdir = os.path.join(self.work, re.sub(r'[^A-Za-z0-9_.-]', '_', ob.name))
        os.makedirs(wdir, exist_ok=True)
        self.slot_take(True)
        try:
            if ob.engine == 'smt':
                ob.func(self, ob, res, wdir)
            else:
                self._run_cbmc_ob(ob, res, wdir)
        except Exception as ex:  # never let one obligation kill the check
            import traceback
            res.status = 'inconclusive'
            res.reason = 'runner exception: %r\n%s' % (ex, traceback.format_exc()[-1200:])
        finally:
            self.slot_give()
        res.wall = time.time() - t0
        if not self.keep:
            for f in glob.glob(os.path.join(wdir, '*.gb')) + glob.glob(os.path.join(wdir, '*.json')):
                try:
                    os.unlink(f)
                except OSError:
                    pass
        return res

    def _run_cbmc_ob(self, ob, res, wdir):
        build = self.build_c if ob.engine == 'c' else self.build_ir
        ph = res.extra.setdefault('phase_s', {})
        tb = time.time()
        gb, err = build(ob, wdir, False)
        ph['build_and_translator_validation'] = round(time.time() - tb, 1)
        if gb is None:
            res.reason = err
            return
        if isinstance(err, dict):
            res.tv_ok = err.get('tv_ok')
            res.tv_vectors = err.get('tv_vectors', 0)
            if err.get('tv_msg'):
                res.extra['translator_validation_note'] = err.get('tv_msg')[:400]
            if res.tv_ok is False:
                res.reason = 'translator validation disagreed: ' + err.get('tv_msg', '')
                return
        env = dict(os.environ)
        shim = os.path.join(VERIF, 'lib', 'shim')
        env['PATH'] = shim + ':' + env.get('PATH', '')
        cmd = self.cbmc_cmd(ob, gb, False)
        res.cmd = ' '.join(cmd).replace(wdir + '/', '')
        tmo = ob.timeout.get(self.tier, ob.timeout.get('thorough', 600))
        wres = {}
        wit_thread = None
        if ob.witness and self.slot_take(False):
            def wrun():
                try:
                    self._witness(ob, wdir, build, env, tmo, wres)
                finally:
                    self.slot_give()
            wit_thread = threading.Thread(target=wrun)
            wit_thread.start()
        try:
            self._main_query(ob, res, wdir, gb, cmd, tmo, env, ph, build, wres, wit_thread)
        finally:
            if wit_thread is not None and wit_thread.is_alive():
                wit_thread.join()

    def _main_query(self, ob, res, wdir, gb, cmd, tmo, env, ph, build, wres, wit_thread):
        rc, out, errt, wall, rss, to = sh(cmd + ['--verbosity', '8'], timeout=tmo, env=env, mem_kb=MEM_KB * (2 if getattr(ob, 'weight', 1) >= 4 else 1), cwd=wdir)
        res.rss_kb = rss
        ph['cbmc'] = round(wall, 1)
        if to:
            res.reason = 'timeout after %ds' % tmo
            return
        props, status, msgs = parse_cbmc_json(out)
        for mt, tx in msgs:
            m = re.search(r'Runtime (?:decision procedure|Solver): ([0-9.]+)s', tx)
            if m:
                res.solver_s += float(m.group(1))
            m = re.search(r'size of program expression: (\d+) steps', tx)
            if m:
                res.steps = int(m.group(1))
            m = re.search(r'Generated (\d+) VCC\(s\), (\d+) remaining', tx)
            if m:
                res.vccs = int(m.group(1))
        if props is None:
            tail = ' | '.join(t for _, t in msgs[-4:]) or (errt or out)[-800:]
            res.reason = 'cbmc gave no result (rc=%s): %s' % (rc, tail[-800:])
            return
        res.functions = self.reachable_functions(gb, ob.entry if ob.engine == 'c' else 'verif_entry')
        res.n_props = len(props)
        failed = []
        for p in props:
            st = p.get('status')
            if st == 'SUCCESS':
                res.n_pass += 1
            elif st == 'FAILURE':
                loc = p.get('sourceLocation', {}) or {}
                pid = p.get('property', '')
                desc = p.get('description', '')
                f = {'id': pid, 'desc': desc, 'function': loc.get('function', ''),
                     'file': loc.get('file', ''), 'line': int(loc.get('line', 0) or 0),
                     'class': loc.get('propertyClass', ''), 'trace': p.get('trace')}
                fpath = f['file']
                if fpath and not os.path.isabs(fpath):
                    fpath = os.path.join(loc.get('workingDirectory', wdir), fpath)
                f['text'] = src_line(fpath, f['line'])
                if '.unwind.' in pid or desc.startswith('unwinding assertion'):
                    res.unwind_failed.append(f)
                    if ob.termination:
                        failed.append(f)
                elif desc.startswith('recursion unwinding'):
                    res.unwind_failed.append(f)
                else:
                    failed.append(f)
            # UNKNOWN / ERROR statuses count as not passed
        res.failed = failed
        if res.unwind_failed and not ob.termination:
            res.status = 'inconclusive'
            res.reason = 'unwinding assertion failed (bound too small): ' + \
                '; '.join('%s@%s:%d' % (f['id'], f['function'], f['line']) for f in res.unwind_failed[:4])
            if not failed:
                return
        if failed:
            res.status = 'fail'
        else:
            if res.n_pass != res.n_props:
                res.status = 'inconclusive'
                und = ['%s:%s' % (p.get('property', ''), p.get('status')) for p in props if p.get('status') not in ('SUCCESS', 'FAILURE')]
                res.reason = '%d of %d properties not decided: %s' % (res.n_props - res.n_pass, res.n_props, ' '.join(und[:6]))
                return
            res.status = 'pass'
        # witness twin
        if ob.witness and res.status == 'pass':
            if wit_thread is not None:
                wit_thread.join()
                wit_thread = None
                ph['witness_ran_alongside'] = True
            else:
                self._witness(ob, wdir, build, env, tmo, wres)
            ph.update(wres.get('phase', {}))
            if wres.get('reason'):
                res.witness_ok = wres.get('ok')
                res.status = 'inconclusive'
                res.reason = wres['reason']
            else:
                res.witness_ok = True

    def _witness(self, ob, wdir, build, env, tmo, wres):
        """Builds and runs the witness twin (same harness, -DWITNESS: a final assert(0) behind the same assumptions, which the
        solver must show reachable).  Fills wres: ok, reason (set when the obligation cannot count as non-vacuous), phase."""
        try:
            ph = wres.setdefault('phase', {})
            tb = time.time()
            wgb, werr = build(ob, wdir, True)
            ph['witness_build'] = round(time.time() - tb, 1)
            if wgb is None:
                wres['reason'] = 'witness build failed: ' + str(werr)[-500:]
                return
            wcmd = self.cbmc_cmd(ob, wgb, True)
            rc, out, errt, wall, rss, to = sh(wcmd, timeout=tmo, env=env, mem_kb=MEM_KB * (2 if getattr(ob, 'weight', 1) >= 4 else 1), cwd=wdir)
            ph['witness_cbmc'] = round(wall, 1)
            wprops, _, wmsgs = parse_cbmc_json(out)
            wit = [p for p in (wprops or []) if 'WITNESS' in p.get('description', '')]
            if to or wprops is None or not wit:
                wres['ok'] = False
                wres['reason'] = 'witness twin gave no verdict (timeout=%s, %d witness properties)' % (to, len(wit))
                return
            bad = [p for p in wit if p.get('status') != 'FAILURE']
            wres['ok'] = not bad
            if bad:
                wres['reason'] = 'VACUOUS: witness not reachable: ' + '; '.join(p.get('description', '') for p in bad)
        except Exception as ex:
            wres['ok'] = False
            wres['reason'] = 'witness twin: runner exception %r' % (ex,)

    def loops_of(self, gb, funcs):
        """unwindset entries for every loop of the functions matched by the regex keys of funcs"""
        rc, out, err, w, rss, to = sh(['goto-instrument', '--show-loops', gb], timeout=300)
        r = {}
        for m in re.finditer(r'^Loop (\S+):', out, re.M):
            lid = m.group(1)
            fn = lid.rsplit('.', 1)[0]
            for pat, n in funcs.items():
                if re.search(pat, fn):
                    r[lid] = max(n, r.get(lid, 0))
        return r

    def reachable_functions(self, gb, entry):
        rc, out, err, w, rss, to = sh(['goto-instrument', '--call-graph', gb], timeout=120)
        edges = {}
        for l in out.splitlines():
            m = re.match(r'^(\S+) -> (\S+)$', l.strip())
            if m:
                edges.setdefault(m.group(1), set()).add(m.group(2))
        fs = set([entry])
        todo = [entry]
        while todo:
            f = todo.pop()
            for g in edges.get(f, ()):
                if g not in fs:
                    fs.add(g)
                    todo.append(g)
        return sorted(fs)

    # -------------------------------------------------------------- replay
    def write_replay(self, ob, f):
        vals = nondet_values(f.get('trace'))
        os.makedirs(os.path.join(VERIF, 'replays'), exist_ok=True)
        h = hashlib.sha1((ob.name + f['id'] + f['desc'] + str(vals)).encode()).hexdigest()[:10]
        path = os.path.join(VERIF, 'replays', '%s-%s.json' % (re.sub(r'[^A-Za-z0-9_.-]', '_', ob.name), h))
        d = {'property': ob.prop, 'obligation': ob.name, 'tier': self.tier,
             'failed_property': {k: f[k] for k in ('id', 'desc', 'function', 'file', 'line', 'text')},
             'defines': ob.all_defines(self.tier),
             'nondet_values': [[k, v] for k, v in vals]}
        with open(path, 'w') as fh:
            json.dump(d, fh, indent=1)
        return path

    def native_replay(self, ob, path, wdir=None):
        """Build the harness natively with sanitizers and feed it the
        counterexample's values.  Returns (verdict, detail); verdict in
        reproduced | not-reproduced | assume-failed | build-failed | unsupported."""
        from . import irbuild
        if not ob.native:
            return 'unsupported', 'no native replay for this harness'
        d = json.load(open(path))
        wdir = wdir or os.path.join(self.work, 'replay-' + re.sub(r'[^A-Za-z0-9_.-]', '_', ob.name))
        os.makedirs(wdir, exist_ok=True)
        exe = os.path.join(wdir, 'native')
        if not os.path.exists(exe):
            if ob.engine == 'c':
                ok, msg = self.build_native_c(ob, d.get('defines', []), exe)
            else:
                ok, msg = irbuild.build_native(self, ob, d.get('defines', []), exe, wdir)
            if not ok:
                return 'build-failed', msg[-800:]
        vf = os.path.join(wdir, 'values-%s.txt' % hashlib.sha1(path.encode()).hexdigest()[:8])
        with open(vf, 'w') as fh:
            for k, v in d['nondet_values']:
                fh.write('%s %d\n' % (k, v))
        env = dict(os.environ)
        env['VERIF_VALUES'] = vf
        env['ASAN_OPTIONS'] = 'detect_leaks=0:abort_on_error=0:allocator_may_return_null=1:max_allocation_size_mb=2048'
        env['UBSAN_OPTIONS'] = 'halt_on_error=1:print_stacktrace=0'
        rc, out, err, wall, rss, to = sh([exe], timeout=30, env=env, cwd=wdir)
        tail = (err or '')[-1200:]
        if to:
            return ('reproduced' if ob.termination else 'not-reproduced'), 'native run exceeded 30 s watchdog'
        if rc == 77:
            return 'assume-failed', tail
        if rc != 0:
            return 'reproduced', tail
        return 'not-reproduced', tail

    def build_native_c(self, ob, defines, exe):
        cmd = ['gcc', '-std=' + (ob.std or 'gnu90'), '-O1', '-g', '-fsanitize=address,undefined',
               '-fno-sanitize-recover=undefined', '-fno-omit-frame-pointer', '-DNATIVE_REPLAY', '-w'] + \
              REAL_DEFS + REPO_INCS + ['-I' + HARN] + ['-D' + x for x in defines]
        cmd += [os.path.join(HARN, ob.src)] + [os.path.join(REPO, t) for t in ob.repo_tus] + \
               [os.path.join(HARN, e) for e in ob.extra_srcs] + \
               [os.path.join(HARN, 'native_rt.c'), '-DVERIF_ENTRY=' + ob.entry, '-o', exe, '-lm']
        if ob.separate_tus:
            return False, 'harness with cut-out leaf functions has no native build (the stubs replace static functions)'

        rc, o, e, w, rss, to = sh(cmd, timeout=300)
        return rc == 0, (e or o)


def load_known():
    p = os.path.join(VERIF, 'known_findings.json')
    if not os.path.exists(p):
        return []
    return json.load(open(p)).get('findings', [])


def match_known(known, ob, f):
    for k in known:
        if k.get('status') != 'open':
            continue
        if k.get('property') != ob.prop:
            continue
        m = k.get('match', {})
        if 'obligation' in m and not re.search(m['obligation'], ob.name):
            continue
        if 'function' in m and not re.search(m['function'], f.get('function', '')):
            continue
        if 'desc' in m and not re.search(m['desc'], f.get('desc', '')):
            continue
        if 'text' in m and not re.search(m['text'], f.get('text', '')):
            continue
        return k
    return None


def run_property(prop, obligations, tier, seed, level_note, keep=False):
    """Runs every obligation of a property in the tier; prints the interface
    lines; writes evidence; returns the exit code."""
    R = Runner(prop, tier, seed, keep)
    obs = [o for o in obligations if o.in_tier(tier)]
    results = []
    t0 = time.time()
    # obligations that need several GiB each declare a weight: fewer of them run at the same time
    R.capacity = max(1, NCPU // max([o.weight for o in obs] or [1]))
    jobs = max(1, min(R.capacity, len(obs)))
    try:
        with cf.ThreadPoolExecutor(max_workers=jobs) as ex:
            futs = {ex.submit(R.run_ob, o): o for o in sorted(obs, key=lambda o: -o.cost)}
            for fu in cf.as_completed(futs):
                r = fu.result()
                results.append(r)
                print('[%s] %-34s %-12s %6.1fs %s' % (prop, r.ob.name, r.status.upper(), r.wall,
                                                       (r.reason or '')[:300].replace('\n', ' ')), flush=True)
        results.sort(key=lambda r: [o.name for o in obs].index(r.ob.name))
        violations = []
        known_seen = []
        ub_notes = []
        inconclusive = []
        for r in results:
            if r.status == 'inconclusive':
                inconclusive.append({'obligation': r.ob.name, 'reason': r.reason[:600]})
                print('INCONCLUSIVE %s %s' % (r.ob.name, r.reason[:400].replace('\n', ' ')))
            if r.status != 'fail':
                continue
            new_fail = []
            for f in r.failed:
                k = match_known(R.known, r.ob, f)
                if k:
                    f['classification'] = 'known:' + k['id']
                    known_seen.append((k, r.ob.name, f))
                    continue
                if f['desc'].startswith('pointer arithmetic') or 'pointer relation' in f['desc'] or \
                        any(re.search(u, f['desc']) for u in r.ob.ub_only):
                    f['classification'] = 'ub-note'
                    ub_notes.append({'obligation': r.ob.name, 'desc': f['desc'], 'function': f['function'],
                                     'line': f['line'], 'text': f['text']})
                    continue
                new_fail.append(f)
            # group by site so one defect yields one replay
            seen_sites = set()
            for f in new_fail:
                site = (f['function'], f['text'] or f['line'], re.sub(r'\d+', 'N', f['desc'])[:60])
                if site in seen_sites:
                    f['classification'] = 'duplicate-site'
                    continue
                seen_sites.add(site)
                path = R.write_replay(r.ob, f)
                verdict, detail = R.native_replay(r.ob, path)
                if (f['desc'].startswith('unwinding assertion') or '.unwind.' in f['id']) and verdict != 'reproduced':
                    # a loop bound that is merely too small for the harness is not a termination defect:
                    # only a native run that actually hangs (30 s watchdog) turns it into a violation
                    f['classification'] = 'unwinding-bound-too-small'
                    inconclusive.append({'obligation': r.ob.name, 'reason': 'unwinding assertion %s failed but the native replay terminates (%s): bound too small' % (f['id'], verdict)})
                    print('INCONCLUSIVE %s unwinding assertion %s at %s:%s not confirmed by native replay (%s)' % (r.ob.name, f['id'], f['function'], f['line'], verdict))
                    continue
                f['classification'] = 'violation:' + verdict
                try:
                    d = json.load(open(path))
                    d['native_replay'] = {'verdict': verdict, 'detail': detail[-600:]}
                    json.dump(d, open(path, 'w'), indent=1)
                except Exception:
                    pass
                violations.append((r.ob.name, f, path, verdict))
            if not new_fail and r.status == 'fail':
                # everything that failed was known or a UB note
                r.extra['all_failures_known'] = True
        seen_ids = set()
        for k, obn, f in known_seen:
            if k['id'] in seen_ids:
                continue
            seen_ids.add(k['id'])
            print('KNOWN-FINDING: property=%s %s %s' % (prop, k['id'], k.get('what', '')))
        for obn, f, path, verdict in violations:
            print('  violation detail: obligation=%s site=%s:%s "%s" check="%s" native-replay=%s' %
                  (obn, f['function'], f['line'], f['text'][:100], f['desc'][:120], verdict))
            print('VIOLATION property=%s replay=%s' % (prop, path))
        n_pass = sum(1 for r in results if r.status == 'pass')
        nontrivial = sum(1 for r in results if r.status == 'pass' and (r.witness_ok or not r.ob.witness))
        ev = {
            'property_id': prop, 'tier': tier, 'seed': seed, 'level': 'model_checking',
            'coverage': {
                'evaluations': sum(r.n_props for r in results) or len(results),
                'distinct_nontrivial': nontrivial,
                'rule': 'evaluations = solver-decided CBMC properties/SMT queries over all obligations of this tier; '
                        'distinct_nontrivial = obligations that passed AND whose witness twin (final assert(0) '
                        'with the same assumptions) was shown reachable by the solver, i.e. non-vacuous',
                'samples': [r.sample() for r in results],
                'obligations': len(results), 'discharged': n_pass,
                # model_checking keys: states = symbolic-execution steps encoded (sum over obligations of the size of the
                # program expression handed to the solver), transitions = verification conditions generated from them,
                # traces_validated_against_impl = native runs compared with the real code (translator-validation vectors
                # that agreed + counterexamples replayed)
                'states': max(1, sum(r.steps for r in results)),
                'transitions': max(1, sum(r.vccs for r in results)),
                'traces_validated_against_impl': sum((r.tv_vectors or 0) for r in results if r.tv_ok) + len(violations),
                'inconclusive': inconclusive,
                'known_findings_seen': sorted(seen_ids),
                'ub_notes': ub_notes[:40],
                'solver_s_total': round(sum(r.solver_s for r in results), 2),
                'exhaustive': False,
            },
            'assumptions': sorted(set(a for r in results for a in r.ob.assumptions)) + [level_note],
            'wall_s': round(time.time() - t0, 2),
            'violations': len(violations),
        }
        os.makedirs(os.path.join(VERIF, 'evidence'), exist_ok=True)
        with open(os.path.join(VERIF, 'evidence', prop + '.json'), 'w') as fh:
            json.dump(ev, fh, indent=1)
        print('[%s] tier=%s obligations=%d pass=%d fail=%d inconclusive=%d known=%d wall=%.0fs' %
              (prop, tier, len(results), n_pass, sum(1 for r in results if r.status == 'fail'),
               len(inconclusive), len(seen_ids), time.time() - t0))
        if violations:
            return 1
        if not results or all(r.status == 'inconclusive' for r in results):
            print('[%s] nothing could be explored' % prop)
            return 2
        return 0
    finally:
        R.cleanup()
