from lib.runner import Ob

LEVEL_NOTE = ('bounded model checking (LLVM IR route) of the real template src/opnmidi_bankmap.tcc instantiated as BasicBankMap<unsigned> (same template '
              'source as BasicBankMap<OPN2::Bank>; only the mapped type differs), as ONE inductive step from forged well-formed states, and of the real '
              'instrument converters; libstdc++ list hooks are textbook models (harness/ir/stdmodels.hpp)')

UF = {'^_ZN12BasicBankMapI[^E]*E(C2|5clear|5begin|8iteratorpp)': 260, '^_ZNK12BasicBankMapI[^E]*E5begin': 260,
      'ind_step': 8, 'chain_ok': 8, '_ZL3inv': 8, 'contains': 8, '^harness_ind$': 8}
OPN = {0: 'insert', 1: 'insertRt', 2: 'erase'}
OBLIGATIONS = []
for (a, b) in ((2, 1), (3, 1), (0, 0), (1, 0), (3, 0), (2, 2), (4, 0)):
    for op in (0, 1, 2):
        for ki in (0, 3, 5):
            quick = (a, b) in ((2, 1), (3, 1)) and ki in (0, 3)
            OBLIGATIONS.append(Ob('C16.map.ind.a%db%d.%s.k%d' % (a, b, OPN[op], ki), 'C16', 'ir/c16_map.cpp', engine='ir', entry='harness_ind',
                                  defines=['SHAPE_A=%d' % a, 'SHAPE_B=%d' % b, 'OP=%d' % op, 'KI=%d' % ki], unwind=8, unwind_funcs=UF,
                                  ir_opts={'tv_vectors': 8}, tiers=('quick', 'thorough') if quick else ('thorough',),
                                  timeout={'quick': 900, 'thorough': 1800},
                                  desc='one %s of key #%d from every well-formed state with %d slots chained in the 3-key collision bucket, %d in a second bucket, the rest free: representation invariant and map semantics hold afterwards' % (OPN[op], ki, a, b),
                                  bounds='4 slots, 3 buckets (one with three colliding keys); chain keys and values symbolic; growth by reserve() not included',
                                  assumptions=['pre-state satisfies the representation invariant INV (chains doubly linked, head.prev==NULL, every slot in exactly one of bucket chains / free list, size exact); INV is re-established by every step, so the result extends to histories of any length within the capacity']))
for hib in (255, 128, 1):
    for (a, b) in ((1, 1), (2, 2), (0, 1), (3, 0), (0, 0)):
        quick = (hib, a, b) in ((255, 1, 1), (255, 2, 2), (128, 1, 1), (255, 3, 0))
        OBLIGATIONS.append(Ob('C16.map.iter.a%db%d.hi%d' % (a, b, hib), 'C16', 'ir/c16_map.cpp', engine='ir', entry='harness_iter',
                              defines=['ITER_A=%d' % a, 'ITER_B=%d' % b, 'HIB=%d' % hib], unwind=8,
                              unwind_funcs={'^_ZN12BasicBankMapI[^E]*E(C2|5clear|5begin|8iteratorpp)': 260, '^_ZNK12BasicBankMapI[^E]*E5begin': 260, 'harness_iter': 260},
                              ir_opts={'tv_vectors': 8}, tiers=('quick', 'thorough') if quick else ('thorough',), timeout={'quick': 600, 'thorough': 1800},
                              desc='begin()/operator++/end() over every well-formed state with %d elements chained in bucket 0 and %d in bucket %d: every element visited exactly once, then end()' % (a, b, hib),
                              bounds='4 slots; buckets 0 and %d (255 = last bucket); keys inside the collision classes and values symbolic' % hib))
OBLIGATIONS.append(Ob('C16.cvt', 'C16', 'ir/c16_map.cpp', engine='ir', entry='harness_cvt', unwind=8, unwindset={'memcmp.0': 40},
                      repo_tus=['src/opnmidi_load.cpp'], ir_opts={'tv_vectors': 8},
                      desc='cvt_FMIns_to_OPNI(cvt_OPNI_to_FMIns(x)) == x for every OPN2_Instrument value; both voices identical',
                      bounds='all field values'))
