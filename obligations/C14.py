from lib.runner import Ob

LEVEL_NOTE = ('ONLY the Nuked OPN2 core (src/chips/nuked/ym3438.c, two of the eight emulator ids) and ONLY sequential interference are decided: '
              'bounded model checking (CBMC) of a 2-safety frame condition over one OPN2_Clock step from an arbitrary chip state. The other cores, '
              'bit-for-bit reproducibility of whole renderings and every multi-threaded clause (data races) are NOT decided (DESIGN.md section 5)')

OBLIGATIONS = []
for cyc in range(24):
    quick = True      # all 24 cycles finish in about 2.5 minutes together
    OBLIGATIONS.append(Ob('C14.nuked.frame.cyc%d' % cyc, 'C14', 'c/nuked.c', entry='harness_frame', std='gnu99', defines=['CYC=%d' % cyc], unwind=25, unwindset={'harness_frame.0': 1400}, termination=True,
                          flags=['--no-standard-checks', '--bounds-check', '--pointer-check', '--div-by-zero-check', '--no-slice-formula'],
                          tiers=('quick', 'thorough') if quick else ('thorough',), timeout={'quick': 900, 'thorough': 1800},
                          desc='Nuked core, chip cycle %d: two instances in the same arbitrary state; one is clocked before and one after ANOTHER instance is created '
                               '(chip type set, OPN2_Reset, one register write): sample output, DAC latches, status, counters and a symbolic probe slot of the '
                               'per-operator state are equal' % cyc,
                          bounds='one OPN2_Clock step at chip cycle %d from every chip state satisfying the index-range invariant (channel = cycle mod 6, eg_state < 4, detune/multiple/block/'
                                 'key-code/LFO fields within their register widths); interfering calls: chip-type selection of either type, OPN2_Reset(44100, 7670454), one OPN2_Write with '
                                 'arbitrary port/data on the OTHER instance; the buffered-write / resampling loop of OPN2_Generate* around the clock step is outside; '
                                 'signed-shift and overflow checks are off (the emulator shifts negative values on purpose; not the subject of C14), bounds/pointer checks are on' % cyc,
                          assumptions=['chip state index fields within the ranges the core itself maintains (assume_state in harness/c/nuked.c)']))
