from lib.runner import Ob
from obligations.common import *

LEVEL_NOTE = ('bounded model checking of the real OPNMIDIplay::calculateChipChannelGoodness on the real player (LLVM IR route), users inserted through the real '
              'pl_list; only the score ordering that drives the allocator is decided, the selection/eviction loop over a full set of channels is not')

OBLIGATIONS = []
for a, nm in ((-1, 'auto'), (0, 'offdelay'), (1, 'sameinst'), (2, 'anyreleased')):
    OBLIGATIONS.append(Ob('C06.score.' + nm, 'C06', 'ir/c06_score.cpp', engine='ir', entry='harness_order', defines=['ALLOC=%d' % a],
                          unwind=20, unwind_funcs=INIT_UNWIND, unwindset={'memcmp.0': 40}, repo_tus=PLAYER_TUS, ir_opts=player_ir_opts(),
                          timeout={'quick': 600, 'thorough': 1800},
                          desc='channel-allocation mode %s: score(idle channel) > score(channel whose only user is released but pedal/sostenuto-held) > score(channel whose key is still down), no int32 truncation' % nm,
                          bounds='one user per occupied channel; key-on timers within 10 simulated minutes (-600 s .. 65.535 s), vibrato delays 0..600 s, release timer 0..65.535 s; MIDI and CMF music modes; the held user has no matching active note (no same-instrument bonus)',
                          stubs=PLAYER_STUBS))
