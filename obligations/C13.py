from lib.runner import Ob

LEVEL_NOTE = ('bounded model checking of the real SendStereoAudio/CopySamples*/opn2_cvt* (opnmidi.cpp compiled by clang++-14 -O1, '
              'translated IR->C by lib/ir2c.py, decided by CBMC); destination buffers are exact-size heap objects')

OBLIGATIONS = []
for cls in ('INT', 'F32', 'F64'):
    for planar in (0, 1):
        for req in (0, 2, 4, 6, 8):
            OBLIGATIONS.append(
                Ob('C13.send.%s.%s.req%d' % (cls.lower(), 'planar' if planar else 'interleaved', req), 'C13', 'ir/c13_send.cpp', engine='ir',
                   entry='harness_send', defines=['CLASS_' + cls, 'PLANAR=%d' % planar, 'REQ=%d' % req],
                   tier_defines={'quick': ['MAXFRAMES=2'], 'thorough': ['MAXFRAMES=3']},
                   tiers=('quick', 'thorough') if (req <= 2 or (req == 4 and cls == 'INT')) else ('thorough',),
                   unwind=7, timeout={'quick': 400, 'thorough': 2400},
                   desc='SendStereoAudio: -1 exactly for unsupported pairs; every destination byte is the documented conversion or unchanged',
                   bounds='requested=%d samples, every even out_pos <= requested, <= 2 (quick) / 3 (thorough) frames in the mixing buffer, sampleOffset <= 17, all 32-bit sample values, all type/container values of the class' % req,
                   assumptions=['caller contract: sampleOffset >= container (planar) / >= 2*container (interleaved, right = left+container)']))
