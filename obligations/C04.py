from lib.runner import Ob
from obligations.common import *
from obligations.C05 import mk, unregistered

LEVEL_NOTE = ('bounded model checking of the real player (LLVM IR route) on concrete-shape states reached through the real API: after a concrete prefix '
              'of calls one symbolic operation is applied and the voice-allocation bookkeeping invariant (note <-> user back references, uniqueness, '
              'gliding/extended counters, bank pointers, keyed-on <=> has a user) is asserted on the real lists; bounded histories only')

OBLIGATIONS = mk('C04', 'ONLY_C04')
UNREGISTERED = unregistered('C04', 'ONLY_C04')
