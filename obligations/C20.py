from lib.runner import Ob
from obligations.common import *

LEVEL_NOTE = ('bounded model checking of the shared chip front end (OPN2::reset, OPNChipBaseT<T>::setRate/setupResampler/resampledGenerate/generate32) '
              'instantiated with the TapChip stub; the arithmetic inside the eight emulator cores (pitch of the rendered fundamental, onset, release to '
              'silence) is NOT covered: it needs thousands of emulated samples and a spectral oracle (DESIGN.md section 4)')

UF = dict(INIT_UNWIND)
OBLIGATIONS = []
for fam, nm in ((0, 'opn2'), (1, 'opna')):
    OBLIGATIONS.append(Ob('C20.ratio.' + nm, 'C20', 'ir/c20_rate.cpp', engine='ir', entry='harness_ratio', defines=['FAMILY=%d' % fam],
                          unwind=20, unwind_funcs=UF, repo_tus=PLAYER_TUS, ir_opts=player_ir_opts(), timeout={'quick': 600, 'thorough': 1800},
                          desc='applySetup/OPN2::reset with every output rate 8000..192000, run-at-PCM flag on/off: every chip gets the %s native clock, native rate = clock/144, resampling ratio within 0.5 %% (1 %% below 22.05 kHz) of rate/native' % nm.upper(),
                          bounds='all rates in [8000, 192000]; 2 chips; TapChip instantiation of the resampler template', stubs=PLAYER_STUBS))
    for rate in (8000, 22050, 44100, 48000, 96000, 192000):
        OBLIGATIONS.append(Ob('C20.resample.%s.r%d' % (nm, rate), 'C20', 'ir/c20_rate.cpp', engine='ir', entry='harness_resample',
                              defines=['FAMILY=%d' % fam, 'RATE=%d' % rate], unwind=20, unwind_funcs=UF, repo_tus=PLAYER_TUS, ir_opts=player_ir_opts(),
                              tiers=('quick', 'thorough') if (rate in (8000, 44100, 192000) and fam == 0) or (fam == 1 and rate == 44100) else ('thorough',),
                              timeout={'quick': 600, 'thorough': 1800},
                              desc='one resampledGenerate step from every reachable resampler state at %d Hz: counter invariant kept, native ticks consumed = floor(counter/ratio)' % rate,
                              bounds='every counter value in [0, ratio+1024), arbitrary native samples; the interpolation value itself (no overshoot) is not decided (symbolic multiply)', stubs=PLAYER_STUBS))
