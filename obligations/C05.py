from lib.runner import Ob
from obligations.common import *

LEVEL_NOTE = ('bounded model checking of the real player (LLVM IR route) on concrete-shape states reached through the real API: after a concrete prefix '
              'of calls one symbolic operation of a 26-operation alphabet is applied and the set of (channel,key) pairs owning a keyed-on chip channel '
              'is compared with a reference model of the MIDI rules; bounded histories only (prefix + 1..2 steps + release tail)')

ST_UNWIND = dict(INIT_UNWIND)
ST_UNWIND.update({'pin_instrument': 40, 'pin_concrete': 40, 'realTime_panic': 130, '_ZN11OPNMIDIplay5panic': 130, '_ZN4OPN26noteOnEmd': 48,
                  'realTime_NoteAfterTouch': 130, '_ZN4OPN28setPatch': 40})

PREFIXES = [
    ('fresh', '', ('quick', 'thorough')),
    ('down1', 'NOTEON1,', ('quick', 'thorough')),
    ('down2', 'NOTEON1,NOTEON2,', ('thorough',)),
    ('peddown', 'PED_ON,NOTEON1,', ('quick', 'thorough')),
    ('pedheld', 'PED_ON,NOTEON1,NOTEOFF1,', ('quick', 'thorough')),
    ('pedheld.restruck', 'PED_ON,NOTEON1,NOTEOFF1,NOTEON1,', ('thorough',)),
    ('sostdown', 'NOTEON1,SOST_ON,', ('quick', 'thorough')),
    ('sostheld', 'NOTEON1,SOST_ON,NOTEOFF1,', ('quick', 'thorough')),
    ('sostmixed', 'NOTEON1,SOST_ON,NOTEON2,', ('thorough',)),
    ('both', 'NOTEON1,SOST_ON,PED_ON,NOTEOFF1,', ('quick', 'thorough')),
    ('glide', 'PORTA_TIME,PORTA_ON,NOTEON1,NOTEON2,', ('thorough',)),
    ('other', 'O_PED_ON,O_NOTEON,NOTEON1,', ('thorough',)),
]
# operation groups of the symbolic slot X (indices into enum Op of the harness)
GROUPS = [('keys', 0, 4), ('pedals', 5, 8), ('offs', 9, 12), ('tick', 13, 13), ('data', 14, 19), ('otherch', 20, 24)]
QUICK = {(0, 'pedheld'): [('keyped', 0, 8), ('offtick', 9, 13)], (0, 'sostdown'): [('keyped', 0, 8)],
         (0, 'both'): [('offtick', 9, 13)], (9, 'down1'): [('keyped', 0, 8)]}
ASSUME = ['bank entries are pinned: concrete single-voice timbres, not blank, key-on/off times 1200/300 ms (a symbolic time makes the allocator choice symbolic)',
          'integer stack slots that SROA made from small by-value structs start as 0 instead of arbitrary (ir2c; padding bytes)']
BOUNDS = ('history = concrete prefix + %s; keys 60 and 35 on one MIDI channel (+ key 60 on channel 1), 2 chips (12 chip channels, polyphony never exceeded); '
          'velocities {1,64,127} and pedal values {63,64} enumerated on call sites, bend/volume/after-touch data symbolic')


def one(prop, only, name, chn, pre, lo, hi, tiers, steps=1, tail=False):
    d = [only, 'CHN=%d' % chn, 'STEPS=%d' % steps, 'XLO=%d' % lo, 'XHI=%d' % hi, 'PRE_LIST=' + pre]
    if tail:
        d.append('WITH_TAIL')
    what = '%d symbolic operation(s) of enum Op %d..%d%s' % (steps, lo, hi, ' + release of every key and pedal + 30 ms' if tail else '')
    return Ob(name, prop, 'ir/c04_step.cpp', engine='ir', entry='harness_step', defines=d,
              unwind=20, unwind_funcs=ST_UNWIND, unwindset={'memcmp.0': 40}, repo_tus=PLAYER_TUS, ir_opts=player_ir_opts(),
              timeout={'quick': 1500, 'thorough': 3400}, tiers=tiers, weight=3,
              desc='MIDI channel %d: concrete prefix [%s] then %s: model / invariant asserted after every symbolic call' % (chn, pre, what),
              bounds=BOUNDS % what, assumptions=ASSUME, stubs=PLAYER_STUBS)


def mk(prop, only):
    obs = []
    pre_of = dict((nm, pre) for nm, pre, _ in PREFIXES)
    for (chn, nm), groups in sorted(QUICK.items()):
        for g, lo, hi in groups:
            obs.append(one(prop, only, '%s.step.ch%d.%s.%s' % (prop, chn, nm, g), chn, pre_of[nm], lo, hi, ('quick', 'thorough')))
    for chn in (0, 9):
        for nm, pre, tiers in PREFIXES:
            if chn == 9 and nm in ('glide', 'other', 'sostmixed', 'pedheld.restruck'):
                continue
            for g, lo, hi in GROUPS:
                if (chn, nm) in QUICK and g in ('keys', 'pedals', 'offs', 'tick') and not (chn == 9 and nm == 'pedheld' and g in ('keys', 'pedals')):
                    continue
                obs.append(one(prop, only, '%s.step.ch%d.%s.%s' % (prop, chn, nm, g), chn, pre, lo, hi, ('thorough',)))
    # release tail and two-step histories
    for nm in ('pedheld', 'both', 'sostheld'):
        obs.append(one(prop, only, '%s.tail.ch0.%s' % (prop, nm), 0, pre_of[nm], 0, 13, ('thorough',), tail=True))
    obs.append(one(prop, only, '%s.tail.ch9.down1' % prop, 9, pre_of['down1'], 0, 13, ('thorough',), tail=True))
    obs.append(one(prop, only, '%s.k2.ch0.down1' % prop, 0, pre_of['down1'], 0, 13, ('thorough',), steps=2))
    # opn2_panic = 16 x 128 note-offs: own obligations
    for nm, pre in (('pedheld', 'PED_ON,NOTEON1,NOTEOFF1,'), ('both', 'NOTEON1,SOST_ON,PED_ON,NOTEOFF1,NOTEON2,')):
        obs.append(Ob('%s.step.ch0.%s.panic' % (prop, nm), prop, 'ir/c04_step.cpp', engine='ir', entry='harness_step',
                      defines=[only, 'CHN=0', 'STEPS=1', 'XLO=25', 'XHI=25', 'PRE_LIST=' + pre],
                      unwind=20, unwind_funcs=ST_UNWIND, unwindset={'memcmp.0': 40}, repo_tus=PLAYER_TUS, ir_opts=player_ir_opts(),
                      timeout={'quick': 900, 'thorough': 3000}, tiers=('thorough',),
                      desc='prefix [%s] then opn2_panic then the release tail' % pre, bounds='as the other step obligations', stubs=PLAYER_STUBS))
    return obs


OBLIGATIONS = mk('C05', 'ONLY_C05')
