from lib.runner import Ob
from obligations.common import *

LEVEL_NOTE = ('bounded model checking of the real player (LLVM IR route) on concrete-shape states reached through the real API: after a concrete prefix '
              'of calls one symbolic operation of a 26-operation alphabet is applied and the set of (channel,key) pairs owning a keyed-on chip channel '
              'is compared with a reference model of the MIDI rules; bounded histories only (prefix + 1..2 steps + release tail)')

ST_UNWIND = dict(INIT_UNWIND)
ST_UNWIND.update({'pin_instrument': 40, 'pin_concrete': 40, 'realTime_panic': 130, '_ZN11OPNMIDIplay5panic': 130, '_ZN4OPN26noteOnEmd': 48,
                  'realTime_NoteAfterTouch': 130, '_ZN4OPN28setPatch': 40})

PREFIXES = {
    'fresh': '', 'down1': 'NOTEON1,', 'down2': 'NOTEON1,NOTEON2,', 'peddown': 'PED_ON,NOTEON1,', 'pedheld': 'PED_ON,NOTEON1,NOTEOFF1,',
    'pedheld.restruck': 'PED_ON,NOTEON1,NOTEOFF1,NOTEON1,', 'sostdown': 'NOTEON1,SOST_ON,', 'sostheld': 'NOTEON1,SOST_ON,NOTEOFF1,',
    'sostmixed': 'NOTEON1,SOST_ON,NOTEON2,', 'both': 'NOTEON1,SOST_ON,PED_ON,NOTEOFF1,', 'porta1': 'PORTA_TIME,PORTA_ON,NOTEON1,',
    'glide': 'PORTA_TIME,PORTA_ON,NOTEON1,NOTEON2,', 'other': 'O_PED_ON,O_NOTEON,NOTEON1,',
}
# operation groups of the symbolic slot X (indices into enum Op of the harness)
GROUPS = {'keys': (0, 4), 'pedals': (5, 8), 'keyped': (0, 8), 'offtick': (9, 13), 'data': (14, 19), 'otherch': (20, 24)}
# (channel, prefix, group, with release tail, tiers).  Every registered obligation has been run on the unchanged tree; the percussion
# channel 9 variants and the remaining prefix x group combinations are listed in UNREGISTERED (CBMC returns status ERROR for 20 properties
# of the channel-9 variants and ch0.down1.* under the 14 GiB address-space limit: the SAT back end runs out of memory; with the 28 GiB
# limit that weight-4 obligations now get, ch0.porta1.keys passes and is registered;
# the others were not run for lack of time) -- see DESIGN.md section 4.
SETS = {
    'C05': [(0, 'pedheld', 'offtick', False, ('quick', 'thorough')), (0, 'sostdown', 'keyped', False, ('quick', 'thorough')),
            (0, 'both', 'keyped', False, ('quick', 'thorough')), (0, 'pedheld', 'pedals', True, ('quick', 'thorough')),
            (0, 'pedheld', 'keyped', False, ('thorough',)), (0, 'both', 'offtick', False, ('thorough',)),
            (9, 'down1', 'keys', False, ('thorough',))],      # percussion channel: passes with the 28 GiB limit (941 s)
    'C04': [(0, 'porta1', 'keys', False, ('quick', 'thorough')), (0, 'sostdown', 'keyped', False, ('quick', 'thorough')),
            (0, 'pedheld', 'offtick', False, ('quick', 'thorough')), (0, 'pedheld', 'keyped', False, ('thorough',)),
            (0, 'both', 'offtick', False, ('thorough',))],
}
ASSUME = ['bank entries are pinned: concrete single-voice timbres, not blank, key-on/off times 1200/300 ms (a symbolic time makes the allocator choice symbolic)',
          'integer stack slots that SROA made from small by-value structs start as 0 instead of arbitrary (ir2c; padding bytes)']
BOUNDS = ('history = concrete prefix + %s; keys 60 and 35 on one MIDI channel (+ key 60 on channel 1), 2 chips (12 chip channels, polyphony never exceeded); '
          'velocities {1,64,127} and pedal values {63,64} enumerated on call sites, bend/volume/after-touch data symbolic')


def one(prop, only, name, chn, pre, lo, hi, tiers, steps=1, tail=False):
    d = [only, 'CHN=%d' % chn, 'STEPS=%d' % steps, 'XLO=%d' % lo, 'XHI=%d' % hi, 'PRE_LIST=' + pre]
    if tail:
        d.append('WITH_TAIL')
    what = '%d symbolic operation(s) of enum Op %d..%d%s' % (steps, lo, hi, ' + release of every key and pedal + 30 ms' if tail else '')
    return Ob(name, prop, 'ir/c04_step.cpp', engine='ir', entry='harness_step', defines=d,
              unwind=20, unwind_funcs=ST_UNWIND, unwindset={'memcmp.0': 40}, repo_tus=PLAYER_TUS, ir_opts=player_ir_opts(),
              timeout={'quick': 1500, 'thorough': 3400}, tiers=tiers, weight=4,
              desc='MIDI channel %d: concrete prefix [%s] then %s: model / invariant asserted after every symbolic call' % (chn, pre, what),
              bounds=BOUNDS % what, assumptions=ASSUME, stubs=PLAYER_STUBS)


def mk(prop, only):
    obs = []
    for chn, nm, g, tail, tiers in SETS[prop]:
        lo, hi = GROUPS[g]
        obs.append(one(prop, only, '%s.%s.ch%d.%s.%s' % (prop, 'tail' if tail else 'step', chn, nm, g), chn, PREFIXES[nm], lo, hi, tiers, tail=tail))
    return obs


def unregistered(prop, only):
    """Everything the harness can express beyond the registered sets (vf.py does not run these)."""
    obs = []
    reg = set((c, n, g, t) for c, n, g, t, _ in SETS[prop])
    for chn in (0, 9):
        for nm in sorted(PREFIXES):
            for g in ('keys', 'pedals', 'offtick', 'data', 'otherch'):
                for tail in (False, True):
                    if (chn, nm, g, tail) not in reg:
                        lo, hi = GROUPS[g]
                        obs.append(one(prop, only, '%s.%s.ch%d.%s.%s' % (prop, 'tail' if tail else 'step', chn, nm, g), chn, PREFIXES[nm], lo, hi, ('manual',), tail=tail))
    obs.append(one(prop, only, '%s.k2.ch0.down1' % prop, 0, PREFIXES['down1'], 0, 13, ('manual',), steps=2))
    obs.append(one(prop, only, '%s.step.ch0.pedheld.panic' % prop, 0, PREFIXES['pedheld'], 25, 25, ('manual',)))
    return obs


OBLIGATIONS = mk('C05', 'ONLY_C05')
UNREGISTERED = unregistered('C05', 'ONLY_C05')
