import re
from lib.runner import Ob
from obligations.common import *

LEVEL_NOTE = ('bounded model checking of the real player (LLVM IR route) on concrete-shape states reached through the real API: after a concrete prefix '
              'of calls one symbolic operation of a 26-operation alphabet is applied and the set of (channel,key) pairs owning a keyed-on chip channel '
              'is compared with a reference model of the MIDI rules; bounded histories only (prefix + 1..2 steps + release tail)')

ST_UNWIND = dict(INIT_UNWIND)
ST_UNWIND.update({'pin_instrument': 40, 'pin_concrete': 40, 'realTime_panic': 130, '_ZN11OPNMIDIplay5panic': 130, '_ZN4OPN26noteOnEmd': 48,
                  'realTime_NoteAfterTouch': 130, '_ZN4OPN28setPatch': 40})

PREFIXES = {
    'fresh': '', 'down1': 'NOTEON1,', 'down2': 'NOTEON1,NOTEON2,', 'peddown': 'PED_ON,NOTEON1,', 'pedheld': 'PED_ON,NOTEON1,NOTEOFF1,',
    'pedheld.restruck': 'PED_ON,NOTEON1,NOTEOFF1,NOTEON1,', 'sostdown': 'NOTEON1,SOST_ON,', 'sostheld': 'NOTEON1,SOST_ON,NOTEOFF1,',
    'sostmixed': 'NOTEON1,SOST_ON,NOTEON2,', 'both': 'NOTEON1,SOST_ON,PED_ON,NOTEOFF1,', 'porta1': 'PORTA_TIME,PORTA_ON,NOTEON1,',
    'glide': 'PORTA_TIME,PORTA_ON,NOTEON1,NOTEON2,', 'other': 'O_PED_ON,O_NOTEON,NOTEON1,',
}
# operations of the symbolic slot X (enum Op of the harness) and the groups the obligation sets are written in
OPS = ['NOTEON1', 'NOTEON2', 'NOTEOFF1', 'NOTEOFF2', 'NOTEON1_V0', 'PED_ON', 'PED_OFF', 'SOST_ON', 'SOST_OFF', 'ALLNOTESOFF', 'ALLSOUNDOFF', 'RESETCTL',
       'RESETSTATE', 'TICK', 'PATCH', 'BEND', 'VOLUME', 'PORTA_TIME', 'PORTA_ON', 'AFTERTOUCH', 'O_NOTEON', 'O_NOTEOFF', 'O_PED_ON', 'O_PED_OFF',
       'O_ALLNOTESOFF', 'PANIC']
GROUPS = {'keys': (0, 4), 'pedals': (5, 8), 'keyped': (0, 8), 'offtick': (9, 13), 'data': (14, 19), 'otherch': (20, 24), 'panic': (25, 25)}
# (channel, prefix, group, with release tail, tiers).  Every group is run as ONE SOLVER RUN PER OPERATION (obligation name = ...<group>.<OP>):
# a run that carries a whole group (5-9 operations, each on its own call site with its own copy of the rest of the scenario) needed 13-20 min
# and 10-13 GiB, far more than the sum of its parts (symbolic execution and the SAT instance grow faster than linearly); the same operation on
# its own takes about a minute and 0.5 GiB, so the runs of a group go in parallel and the quick tier finishes in a few minutes.  The set of
# (prefix, operation) pairs decided is exactly the one the group obligations decided.  Every registered set has been run on the unchanged
# tree; the remaining prefix x group combinations are listed in UNREGISTERED (expressible, not run to a verdict) -- see DESIGN.md section 4.
SETS = {
    'C05': [(0, 'pedheld', 'offtick', False, ('quick', 'thorough')), (0, 'sostdown', 'keyped', False, ('quick', 'thorough')),
            (0, 'both', 'keyped', False, ('quick', 'thorough')), (0, 'pedheld', 'pedals', True, ('quick', 'thorough')),
            (0, 'pedheld', 'keyped', False, ('thorough',)), (0, 'both', 'offtick', False, ('thorough',)),
            (9, 'down1', 'keys', False, ('thorough',))],      # percussion channel
    'C04': [(0, 'porta1', 'keys', False, ('quick', 'thorough')), (0, 'sostdown', 'keyped', False, ('quick', 'thorough')),
            (0, 'pedheld', 'offtick', False, ('quick', 'thorough')), (0, 'pedheld', 'keyped', False, ('thorough',)),
            (0, 'both', 'offtick', False, ('thorough',))],
}
ASSUME = ['bank entries are pinned: concrete single-voice timbres, not blank, key-on/off times 1200/300 ms (a symbolic time makes the allocator choice symbolic)',
          'integer stack slots that SROA made from small by-value structs start as 0 instead of arbitrary (ir2c; padding bytes)']
BOUNDS = ('history = concrete prefix + %s; keys 60 and 35 on one MIDI channel (+ key 60 on channel 1), 2 chips (12 chip channels, polyphony never exceeded); '
          'velocities {1,64,127} and pedal values {63,64} enumerated on call sites, bend/volume/after-touch data symbolic')


def one(prop, only, name, chn, pre, lo, hi, tiers, steps=1, tail=False, vfix=None):
    d = ([] if vfix is None else ['VFIX=%d' % vfix]) + [only, 'CHN=%d' % chn, 'STEPS=%d' % steps, 'XLO=%d' % lo, 'XHI=%d' % hi, 'PRE_LIST=' + pre]
    if tail:
        d.append('WITH_TAIL')
    opn = OPS[lo] if lo == hi else 'one of enum Op %d..%d' % (lo, hi)
    if vfix is not None:
        opn += ' (velocity %d)' % vfix
    what = '%d symbolic operation(s) %s%s' % (steps, opn, ' + release of every key and pedal + 30 ms' if tail else '')
    single = (lo == hi and steps == 1)
    return Ob(name, prop, 'ir/c04_step.cpp', engine='ir', entry='harness_step', defines=d,
              unwind=20, unwind_funcs=ST_UNWIND, unwindset={'memcmp.0': 40}, repo_tus=PLAYER_TUS, ir_opts=player_ir_opts(),
              timeout={'quick': 600, 'thorough': 1800} if single else {'quick': 1500, 'thorough': 3400}, tiers=tiers, weight=1 if single else 4,
              cost=2 if single and OPS[lo] in ('NOTEON1', 'NOTEON2', 'O_NOTEON') else 1,   # a note-on is the expensive operation: started first
             
              desc='MIDI channel %d: concrete prefix [%s] then %s: model / invariant asserted after every symbolic call' % (chn, pre, what),
              bounds=BOUNDS % what, assumptions=ASSUME, stubs=PLAYER_STUBS)


NOTE_ONS = ('NOTEON1', 'NOTEON2', 'O_NOTEON')


def expand(prop, only, chn, nm, g, tail, tiers):
    """One obligation per operation of the group; a note-on operation (three velocity call sites, 4 min / 4 GiB in one run) is run
    once per velocity 1 / 64 / 127 (-DVFIX: 2 min / 2 GiB each)."""
    lo, hi = GROUPS[g]
    obs = []
    for k in range(lo, hi + 1):
        base = '%s.%s.ch%d.%s.%s.%s' % (prop, 'tail' if tail else 'step', chn, nm, g, OPS[k])
        if OPS[k] in NOTE_ONS:
            obs += [one(prop, only, '%s.v%d' % (base, v), chn, PREFIXES[nm], k, k, tiers, tail=tail, vfix=v) for v in (1, 64, 127)]
        else:
            obs.append(one(prop, only, base, chn, PREFIXES[nm], k, k, tiers, tail=tail))
    return obs


def mk(prop, only):
    obs = []
    for chn, nm, g, tail, tiers in SETS[prop]:
        obs += expand(prop, only, chn, nm, g, tail, tiers)
    return obs


def unregistered(prop, only):
    """Everything the harness can express beyond the registered sets (vf.py does not run these)."""
    obs = []
    reg = set(o.name for o in mk(prop, only))
    for chn in (0, 9):
        for nm in sorted(PREFIXES):
            for g in ('keys', 'pedals', 'offtick', 'data', 'otherch', 'panic'):
                for tail in (False, True):
                    for o in expand(prop, only, chn, nm, g, tail, ('manual',)):
                        # the same (prefix, operation) pair under another group name is the same obligation
                        if not any(re.sub(r'\.(keys|pedals|keyped)\.', '.G.', o.name) == re.sub(r'\.(keys|pedals|keyped)\.', '.G.', r) for r in reg):
                            obs.append(o)
    obs.append(one(prop, only, '%s.k2.ch0.down1' % prop, 0, PREFIXES['down1'], 0, 13, ('manual',), steps=2))
    return obs


OBLIGATIONS = mk('C05', 'ONLY_C05')
UNREGISTERED = unregistered('C05', 'ONLY_C05')
