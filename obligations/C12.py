from lib.runner import Ob
from obligations.common import *

LEVEL_NOTE = ('bounded model checking of the real bank resolution in OPNMIDIplay::realTime_NoteOn through the public real-time API on the real player '
              '(LLVM IR route, TapChip register log); forged bank slots with tagged instruments; reference resolution written from the property text')

UF = dict(INIT_UNWIND)
UF.update({'pin_instrument': 40, '_ZN4OPN26noteOnEmd': 12})
MODES = {0: 'gm', 1: 'gs', 2: 'xg'}
OBLIGATIONS = []
# One scenario (bank pair x blank pattern, resp. one percussion case) per solver run: a run that holds 8 (4) scenarios costs 8 (4) times the
# symbolic execution of opn2_init + note-on and 6-12 GiB, and took 10-20 min; the single-scenario runs are the same cases, run in parallel.
PAIRS = ('0:0', '1:2', '1:0', '1:3', '2:5')
# quick: exact bank present (GS: LSB ignored) with every blank pattern in XG, the decisive patterns in GS, exact bank missing in XG
QUICK_MEL = set([(2, 1, b) for b in range(8)] + [(1, 1, b) for b in (0, 1, 3, 7)] + [(2, 3, b) for b in (0, 2, 6)])
QUICK_PERC = set([(2, c) for c in (4, 5, 6, 7)])
PERC_CASES = ['program 0 -> kit 0', 'program 5 -> kit 5', 'kit 5 blank -> kit 0', 'kit 5 and kit 0 blank -> rejected', 'program 0, kit 0 blank -> rejected',
              'program 5, MSB 0x7E -> XG SFX kit 128+5', 'program 5, MSB 0x7F -> kit 5', 'MSB 0x7E, SFX kit blank -> kit 0', 'kit 3 missing -> kit 0',
              'kit 3 missing, MSB 0x7E -> kit 0', 'program 0, MSB 0x7E -> kit 0', 'MSB 0x7E, SFX kit and kit 0 blank -> rejected']
for mode, mn in sorted(MODES.items()):
    for sel, pair in enumerate(PAIRS):
        for bl in range(8):
            blanks = ','.join(n for n, bit in (('exact', 1), ('lsb0', 2), ('bank0', 4)) if bl & bit) or 'none'
            OBLIGATIONS.append(Ob('C12.melodic.%s.bank%s.bl%d' % (mn, pair.replace(':', '_'), bl), 'C12', 'ir/c12_banks.cpp', engine='ir', entry='harness_melodic',
                                  defines=['MODE=%d' % mode, 'SEL=%d' % sel, 'BL=%d' % bl], unwind=20, unwind_funcs=UF, unwindset={'memcmp.0': 40}, repo_tus=PLAYER_TUS,
                                  ir_opts=player_ir_opts(), tiers=('quick', 'thorough') if (mode, sel, bl) in QUICK_MEL else ('thorough',),
                                  timeout={'quick': 600, 'thorough': 1800},
                                  desc='melodic channel, %s mode, bank select MSB:LSB %s, program 7, blank entries: %s: the tag loaded into the chip is exact bank / LSB-cleared bank / bank 0 in that order (GS ignores the LSB); all blank => rejected and silent' % (mn.upper(), pair, blanks),
                                  bounds='banks {0:0, 1:0, 1:2} present; every key 0..127 and velocity 1..127; one note on a fresh instance',
                                  assumptions=['banks are forged map slots with concrete tagged timbres (see harness/ir/forge.hpp)'], stubs=PLAYER_STUBS))
    for case in range(12):
        OBLIGATIONS.append(Ob('C12.perc.%s.case%d' % (mn, case), 'C12', 'ir/c12_banks.cpp', engine='ir', entry='harness_perc',
                              defines=['MODE=%d' % mode, 'PCASE=%d' % case], unwind=20, unwind_funcs=UF, unwindset={'memcmp.0': 40}, repo_tus=PLAYER_TUS,
                              ir_opts=player_ir_opts(), tiers=('quick', 'thorough') if (mode, case) in QUICK_PERC else ('thorough',),
                              timeout={'quick': 600, 'thorough': 1800},
                              desc='percussion channel 10, %s mode, case "%s": program selects the kit (XG MSB 0x7E: SFX kits 128 up), key selects the entry, missing/blank kits fall back to kit 0, melodic banks never used' % (mn.upper(), PERC_CASES[case]),
                              bounds='kits {0, 5, 128+5} present; key 38; every velocity', stubs=PLAYER_STUBS))

for mode, mn in ((2, 'xg'), (0, 'gm')):
    OBLIGATIONS.append(Ob('C12.gsreset.' + mn, 'C12', 'ir/c12_banks.cpp', engine='ir', entry='harness_gsreset', defines=['MODE=%d' % mode],
                          unwind=20, unwind_funcs=UF, unwindset={'memcmp.0': 40}, repo_tus=PLAYER_TUS, ir_opts=player_ir_opts(),
                          tiers=('quick', 'thorough') if mode == 2 else ('thorough',), timeout={'quick': 600, 'thorough': 1800},
                          desc='%s mode: CC0=126/127 turns channel 1 into a drum channel; after the GS reset SysEx a note plays the melodic instrument (MSB,0,program) again' % mn.upper(),
                          bounds='one fixed call sequence (CC0, GS reset, bank/program, note-on); every velocity', stubs=PLAYER_STUBS))
