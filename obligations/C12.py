from lib.runner import Ob
from obligations.common import *

LEVEL_NOTE = ('bounded model checking of the real bank resolution in OPNMIDIplay::realTime_NoteOn through the public real-time API on the real player '
              '(LLVM IR route, TapChip register log); forged bank slots with tagged instruments; reference resolution written from the property text')

UF = dict(INIT_UNWIND)
UF.update({'pin_instrument': 40, '_ZN4OPN26noteOnEmd': 12})
MODES = {0: 'gm', 1: 'gs', 2: 'xg'}
OBLIGATIONS = []
for mode, mn in sorted(MODES.items()):
    for sel, pair in enumerate(('0:0', '1:2', '1:0', '1:3', '2:5')):
        OBLIGATIONS.append(Ob('C12.melodic.%s.bank%s' % (mn, pair.replace(':', '_')), 'C12', 'ir/c12_banks.cpp', engine='ir', entry='harness_melodic',
                              defines=['MODE=%d' % mode, 'SEL=%d' % sel], unwind=20, unwind_funcs=UF, unwindset={'memcmp.0': 40}, repo_tus=PLAYER_TUS,
                              ir_opts=player_ir_opts(), tiers=('quick', 'thorough') if (mode == 2 and sel in (1, 3)) or (mode == 1 and sel == 1) else ('thorough',),
                              timeout={'quick': 1500, 'thorough': 3000},
                              desc='melodic channel, %s mode, bank select MSB:LSB %s, program 7, all 8 blank patterns of the three candidate entries: the tag loaded into the chip is exact bank / LSB-cleared bank / bank 0 in that order (GS ignores the LSB); all blank => rejected and silent' % (mn.upper(), pair),
                              bounds='banks {0:0, 1:0, 1:2} present; every key 0..127 and velocity 1..127; one note on a fresh instance',
                              assumptions=['banks are forged map slots with concrete tagged timbres (see harness/ir/forge.hpp)'], stubs=PLAYER_STUBS))
    for sel in (0, 1, 2):
        OBLIGATIONS.append(Ob('C12.perc.%s.g%d' % (mn, sel), 'C12', 'ir/c12_banks.cpp', engine='ir', entry='harness_perc',
                              defines=['MODE=%d' % mode, 'SEL=%d' % sel], unwind=20, unwind_funcs=UF, unwindset={'memcmp.0': 40}, repo_tus=PLAYER_TUS,
                              ir_opts=player_ir_opts(), tiers=('quick', 'thorough') if mode == 2 and sel == 1 else ('thorough',),
                              timeout={'quick': 1500, 'thorough': 3000},
                              desc='percussion channel 10, %s mode: program selects the kit (XG MSB 0x7E: SFX kits 128 up), key selects the entry, missing/blank kits fall back to kit 0, melodic banks never used (4 of 12 enumerated cases)' % mn.upper(),
                              bounds='kits {0, 5, 128+5} present; key 38; every velocity', stubs=PLAYER_STUBS))

for mode, mn in ((2, 'xg'), (0, 'gm')):
    OBLIGATIONS.append(Ob('C12.gsreset.' + mn, 'C12', 'ir/c12_banks.cpp', engine='ir', entry='harness_gsreset', defines=['MODE=%d' % mode],
                          unwind=20, unwind_funcs=UF, unwindset={'memcmp.0': 40}, repo_tus=PLAYER_TUS, ir_opts=player_ir_opts(),
                          tiers=('quick', 'thorough') if mode == 2 else ('thorough',), timeout={'quick': 900, 'thorough': 3000},
                          desc='%s mode: CC0=126/127 turns channel 1 into a drum channel; after the GS reset SysEx a note plays the melodic instrument (MSB,0,program) again' % mn.upper(),
                          bounds='one fixed call sequence (CC0, GS reset, bank/program, note-on); every velocity', stubs=PLAYER_STUBS))
