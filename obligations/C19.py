from lib.runner import Ob
from obligations.common import *

LEVEL_NOTE = ('bounded model checking of the real opn2_init + opn2_rt_systemExclusive (realTime_SysEx, doUniversal/Roland/YamahaSysEx, '
              'realTime_ResetState) translated from LLVM IR; reference classification written from the property text')

OBLIGATIONS = []
for n, ch in [(n, ch) for n in range(0, 17) for ch in (0, 9, 5, 15)]:
    OBLIGATIONS.append(Ob('C19.sysex.len%d.ch%d' % (n, ch), 'C19', 'ir/c19_sysex.cpp', engine='ir', entry='harness_sysex',
                          defines=['LEN=%d' % n, 'CH=%d' % ch], unwind=20, unwind_funcs=INIT_UNWIND, repo_tus=PLAYER_TUS,
                          ir_opts=player_ir_opts(),
                          tiers=('quick', 'thorough') if (n <= 12 and ch in (0, 9) and (ch == 9 or n in (6, 8, 9, 11))) else ('thorough',),
                          timeout={'quick': 600, 'thorough': 1800},
                          desc='every %d-byte message: accepted iff recognised+addressed+exact length+checksum; rejected => no state change; accepted => documented effect' % n,
                          bounds='message length exactly %d (all byte values), device id 0..15, 4 synth modes, symbolic controller state of the probe channel; no sounding notes' % n,
                          assumptions=['data bytes >= 0x80 inside the message and Roland/Yamaha broadcast device 0x7F: either outcome accepted (only consistency is demanded)'],
                          stubs=PLAYER_STUBS))
