from lib.runner import Ob

LEVEL_NOTE = ('bounded model checking (CBMC) of the real music-file front ends on exact-size input arrays: any access outside the image or the '
              'converter\'s own buffers is a bounds failure, termination = unwinding assertions; only the units listed in the evidence are covered '
              '(the SMF/XMI/CMF/IMF/RSXX parsers of midi_sequencer_impl.hpp are NOT: see DESIGN.md)')

OBLIGATIONS = []
for ss, lens in ((14, (14, 15, 16, 17, 18, 19, 20)), (0, (14, 15)), (9, (14, 16))):
    for n in lens:
        iters = n - ss + 2
        quick = ss == 14 and n <= 18
        OBLIGATIONS.append(Ob('C01.mus.ss%d.len%d' % (ss, n), 'C01', 'c/mus.c', entry='harness_safe', defines=['LEN=%d' % n, 'SS=%d' % ss], std='gnu99', unwind=7,
                              unwindset={'harness_safe.0': n + 2, 'memcmp.0': 6, 'Convert_mus2midi.0': 18, 'Convert_mus2midi.8': iters, 'Convert_mus2midi.9': iters},
                              termination=True, tiers=('quick', 'thorough') if quick else ('thorough',), timeout={'quick': 800, 'thorough': 3000},
                              ub_only=('arithmetic overflow on signed',),
                              desc='Convert_mus2midi on every %d-byte image whose score starts at offset %d: no access outside the image / own buffers, success or -1, all loops terminate' % (n, ss),
                              bounds='image length exactly %d, score start %d (so at most %d score bytes), every other byte symbolic; signed overflow is reported as a UB note' % (n, ss, n - ss)))
