from lib.runner import Ob
from obligations.common import *
from obligations.C18 import UF, ST

LEVEL_NOTE = ('two clauses are decided by bounded model checking of the real code (LLVM IR route): (a) loop callbacks persist across resets (registration/reset code on the '
              'real player), (b) the jump decision at the end of the song: the tail of BW_MidiSequencer::processEvents driven through the real setLoopsCount/'
              'setLoopEnabled/setLoopHooksOnly/rewind on a sequencer whose single track has ended; marker detection/validation and loops in the middle of a song '
              '(buildSmfTrackData, the per-track part of processEvents) are not encoded (DESIGN.md section 4)')

from obligations.C18 import HOOK_FOLLOW
# one follow-up call per solver run (see obligations/C18.py)
OBLIGATIONS = [
    Ob('C09.persist.hooks.' + nm, 'C09', 'ir/c18_settings.cpp', engine='ir', entry='harness_hooks', defines=['FOLLOW=%d' % k], unwind=20, unwind_funcs=UF, unwindset={'memcmp.0': 40},
       repo_tus=PLAYER_TUS, ir_opts=player_ir_opts(stub_funcs='setErrorString'), timeout={'quick': 900, 'thorough': 3000},
       desc='loop-start / loop-end callbacks registered through opn2_setLoopStartHook / opn2_setLoopEndHook are still the ones installed in the sequencer interface after ' + call,
       bounds='reconfiguration call after registration: %s; OPNMIDI_MIDI2VGM build configuration (the shipped one)' % call, stubs=ST)
    for k, (nm, call) in enumerate(HOOK_FOLLOW)
]
OBLIGATIONS.append(
    Ob('C09.loop.decision', 'C09', 'ir/c09_loop.cpp', engine='ir', entry='harness_loop', unwind=20, unwindset={'memcmp.0': 40},
       repo_tus=['src/opnmidi_sequencer.cpp'], ir_opts={'chip_defs': [], 'tv_vectors': 12}, timeout={'quick': 900, 'thorough': 2400},
       desc='after the real rewind() from an arbitrary left-over loop state, up to 5 arrivals at the song end: loop-end hook once and All-Notes-Off on all 16 channels per arrival; count N (1..4) = N passes then end of song, count -1 never ends, looping disabled / hooks-only ends at once; every jump lands on the loop start',
       bounds='requested count in {-1, 1..4}; 5 arrivals; one track that has delivered all its events (the jump decision does not depend on the events); loop stack (nested loops) not exercised',
       stubs=['operator new never fails', 'std list/tree primitives: harness/ir/stdmodels.hpp']))
