from lib.runner import Ob
from obligations.common import *
from obligations.C18 import UF, ST

LEVEL_NOTE = ('ONLY the last clause of the property (loop callbacks fire "whenever they were registered and regardless of later resets or file loads") is decided, '
              'by bounded model checking of the real registration/reset code on the real player; loop counting, All-Notes-Off before a jump and marker validation '
              'live in the sequencer (processEvents / buildSmfTrackData), which was not encoded (DESIGN.md section 4)')

OBLIGATIONS = [
    Ob('C09.persist.hooks', 'C09', 'ir/c18_settings.cpp', engine='ir', entry='harness_hooks', unwind=20, unwind_funcs=UF, unwindset={'memcmp.0': 40},
       repo_tus=PLAYER_TUS, ir_opts=player_ir_opts(stub_funcs='setErrorString'), timeout={'quick': 1500, 'thorough': 3000},
       desc='loop-start / loop-end callbacks registered through opn2_setLoopStartHook / opn2_setLoopEndHook are still the ones installed in the sequencer interface after opn2_reset, opn2_switchEmulator, opn2_setNumChips, opn2_setRunAtPcmRate or opn2_setChipType',
       bounds='one reconfiguration call out of five after registration; OPNMIDI_MIDI2VGM build configuration (the shipped one)', stubs=ST),
]
