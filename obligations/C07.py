from lib.runner import Ob
from obligations.common import *

LEVEL_NOTE = ('bounded model checking of ONE leaf mechanism of the real sequencer (LLVM IR route): BW_MidiSequencer::handleEvent, one symbolic event on a real sequencer '
              'object with symbolic track-disable / solo / channel-disable masks; the file parser, the same-tick sorter, the time line and the scheduler '
              '(buildSmfTrackData, sortEvents, buildTimeLine, processEvents) are NOT encoded')

SEQ_TUS = ['src/opnmidi_sequencer.cpp']
SEQ_OPTS = {'chip_defs': [], 'tv_vectors': 12, 'small_memmove': True}
SEQ_STUBS = ['std::_Rb_tree_insert_and_rebalance / _Rb_tree_increment / list hooks: textbook models in harness/ir/stdmodels.hpp (no recolouring)',
             'operator new never fails']
SEQ_UNWIND = {'fraction': 70}

# rows: (name, row0, keys0, row1, keys1, row2, keys2, tiers): event kinds and the key of every event are concrete, the shared channel is symbolic
ROWS = [
    ('on.off.onoff', 'K_ON', '60', 'K_OFF', '60', 'K_ON,K_OFF', '60,60', ('quick', 'thorough')),      # zero-length note after a released note
    ('on.cc.onoff', 'K_ON', '60', 'K_CC', '7', 'K_ON,K_OFF', '60,60', ('quick', 'thorough')),         # re-strike of a sounding note, off listed last
    ('on.cc.offon', 'K_ON', '60', 'K_CC', '7', 'K_OFF,K_ON', '60,60', ('quick', 'thorough')),
    ('on.off.offon', 'K_ON', '60', 'K_OFF', '60', 'K_OFF,K_ON', '60,60', ('thorough',)),
    ('on.off.on61off60', 'K_ON', '60', 'K_OFF', '60', 'K_ON,K_OFF', '61,60', ('thorough',)),
    ('on.cc.on61off60', 'K_ON', '60', 'K_CC', '7', 'K_ON,K_OFF', '61,60', ('quick', 'thorough')),       # off of a sounding note must precede another note-on
    ('on.cc.on.cc.pc', 'K_ON', '60', 'K_CC', '7', 'K_ON,K_CC,K_PC', '61,7,5', ('quick', 'thorough')),
    ('on.cc.on.bend.cat', 'K_ON', '60', 'K_CC', '7', 'K_ON,K_BEND,K_CAT', '61,0,64', ('thorough',)),
    ('on.cc.on.off.cc', 'K_ON', '60', 'K_CC', '7', 'K_ON,K_OFF,K_CC', '61,60,10', ('thorough',)),
    ('on.off.on.sysex.marker', 'K_ON', '60', 'K_OFF', '60', 'K_ON,K_SYSEX,K_MARKER', '61,1,2', ('thorough',)),
]
OBLIGATIONS = []
# The sortEvents obligations are kept for reference but NOT registered: no back end returned a verdict (see DESIGN.md section 5).
EXPERIMENTAL = []
for nm, r0, k0, r1, k1, r2, k2, tiers0 in ROWS:
  for chv in (0, 1, 9, 15):
    tiers = tiers0 if chv in (1, 15) else ('thorough',)
    EXPERIMENTAL.append(Ob('C07.sort.%s.ch%d' % (nm, chv), 'C07', 'ir/c07_seq.cpp', engine='ir', entry='harness_sort',
                          defines=['ROW0=' + r0, 'KEY0=' + k0, 'ROW1=' + r1, 'KEY1=' + k1, 'ROW2=' + r2, 'KEY2=' + k2, 'CHV=%d' % chv], unwind=12, unwindset={'memcmp.0': 40},
                          repo_tus=SEQ_TUS, ir_opts=SEQ_OPTS, tiers=tiers, timeout={'quick': 400, 'thorough': 1200},
                          desc='rows [%s] [%s] [%s] (keys %s | %s | %s) of one track sorted in turn (shared note-state table): the last row is a permutation in the order the property states' % (r0, r1, r2, k0, k1, k2),
                          bounds='3 rows, at most 3 events in the last row; event kinds, keys and the shared MIDI channel (0, 1, 9, 15 enumerated) concrete, all velocities/values 1..127 symbolic',
                          stubs=SEQ_STUBS))
KINDS = ['K_ON', 'K_OFF', 'K_CC', 'K_PC', 'K_BEND', 'K_CAT', 'K_TOUCH', 'K_META_TEMPO', 'K_SYSEX', 'K_MARKER', 'K_EOT']
for k in KINDS:
    OBLIGATIONS.append(Ob('C07.handle.' + k[2:].lower(), 'C07', 'ir/c07_seq.cpp', engine='ir', entry='harness_handle',
                          defines=['HKIND=' + k], unwind=20, unwind_funcs=SEQ_UNWIND, unwindset={'memcmp.0': 40},
                          repo_tus=SEQ_TUS, ir_opts=SEQ_OPTS, timeout={'quick': 800, 'thorough': 2400},
                          tiers=('quick', 'thorough') if k in ('K_ON', 'K_OFF', 'K_CC', 'K_BEND', 'K_META_TEMPO', 'K_EOT') else ('thorough',),
                          desc='handleEvent with one %s event: every channel/data byte, every track-disable / solo / channel-disable mask over 3 tracks, SMF format 0..2: the synthesizer call equals the reference dispatch' % k,
                          bounds='one call; 3 tracks; tempo payload concrete', stubs=SEQ_STUBS))
