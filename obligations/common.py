"""Shared settings for obligations that drive the real player through the E-IR engine."""
PLAYER_TUS = ['src/opnmidi.cpp', 'src/opnmidi_midiplay.cpp', 'src/opnmidi_opn2.cpp', 'src/opnmidi_private.cpp',
              'src/opnmidi_sequencer.cpp', 'src/opnmidi_load.cpp']
CHIP_DEFS = ['OPNMIDI_DISABLE_NUKED_EMULATOR', 'OPNMIDI_DISABLE_GENS_EMULATOR', 'OPNMIDI_DISABLE_YMFM_EMULATOR',
             'OPNMIDI_DISABLE_NP2_EMULATOR', 'OPNMIDI_DISABLE_MAME_2608_EMULATOR']


def player_ir_opts(cap=4, **kw):
    d = {'chip_defs': CHIP_DEFS + ['VERIF_LIST_CAP=%d' % cap], 'force_include': ['ir/cap_shim.hpp'], 'tv_vectors': 12}
    d.update(kw)
    return d


PLAYER_STUBS = ['chip emulators: only MAME YM2612 and the VGM dumper ids are enabled (repo switches OPNMIDI_DISABLE_*); their '
                'member functions are TapChip stubs that record register writes and produce arbitrary samples',
                'operator new/malloc never fail; __cxa_throw = assertion failure',
                'list capacity literal 128 of activenotes()/users() rewritten to VERIF_LIST_CAP by harness/ir/cap_shim.hpp']
# loops that run a fixed number of times during opn2_init (256 hash buckets of the bank map)
INIT_UNWIND = {'_ZN4OPN2C2Ev': 260, '_ZN12BasicBankMap': 260}
