from lib.runner import Ob

LEVEL_NOTE = ('ONLY the DMX MUS clause is decided, by bounded model checking (CBMC) of the real Convert_mus2midi on structured two-event scores; '
              'the XMI converter and the RMI/GMF wrappers live in the sequencer closure (cvt_xmi2mid.hpp uses heap-linked event lists, '
              'midi_sequencer_impl.hpp is C++ with std containers) and were not encoded (DESIGN.md)')

TYPES = {0: 'release', 1: 'play', 5: 'playvol', 2: 'pitch', 3: 'system', 4: 'ctrl', 6: 'program'}
UW = {'conv_case.0': 17, 'conv_case.1': 60, 'conv_case.4': 60, 'harness_conv.0': 17, 'memcmp.0': 6,
      'Convert_mus2midi.0': 18, 'Convert_mus2midi.8': 6, 'Convert_mus2midi.9': 6}

QUICK = {(5, 1, 1, 0), (5, 1, 0, 0), (5, 1, 1, 1), (0, 2, 0, 0), (6, 4, 1, 0), (3, 1, 1, 0), (1, 3, 0, 0), (4, 0, 0, 1), (2, 5, 0, 1), (3, 3, 1, 1)}


def mk(t1, t2, same, c15, extra=(), tag='', quick=False):
    name = 'C17.mus.%s-%s.%s.%s%s' % (TYPES[t1], TYPES[t2], 'same' if same else 'diff', 'perc' if c15 else 'mel', tag)
    return Ob(name, 'C17', 'c/mus.c', entry='harness_conv', std='gnu99', unwind=7, unwindset=UW, termination=True,
              defines=['T1=%d' % t1, 'T2=%d' % t2, 'SAME=%d' % same, 'C1_IS_15=%d' % c15] + list(extra),
              tiers=('quick', 'thorough') if quick else ('thorough',), timeout={'quick': 600, 'thorough': 1500},
              ub_only=('arithmetic overflow on signed',),
              desc='MUS score "%s (delay) %s END" on %s, second event on %s channel: the converter output is byte for byte the MIDI track the MUS format defines '
                   '(channel 15 -> 9, first-use channel numbering, controller translation, remembered note volume, delay = delta in ticks), the tempo/division pair gives 140 Hz within 2.5 %%'
                   % (TYPES[t1], TYPES[t2], 'the percussion channel 15' if c15 else 'every melodic channel 0..14', 'the same' if same else 'another'),
              bounds='two events + END; event types, play keys (72/60), controller numbers (CTL/SYS defines) and the delay bytes are concrete per obligation '
                     '(the converter branches on them; a symbolic value makes every output offset symbolic), channel numbers are enumerated on 15 concrete copies, '
                     'release key, note volume, pitch-wheel value, program number and controller value are symbolic bytes; scores of three or more events, '
                     'ten or more distinct channels (the skip over MIDI channel 9) and symbolic delays are outside the bound')


OBLIGATIONS = []
for t1 in TYPES:
    for t2 in TYPES:
        for same in (1, 0):
            for c15 in (0, 1):
                OBLIGATIONS.append(mk(t1, t2, same, c15, quick=(t1, t2, same, c15) in QUICK))
# controller numbers, system events and multi-byte delays
for ctl in (1, 2, 3, 4, 5, 6, 7, 8, 9):
    OBLIGATIONS.append(mk(4, 1, 1, 0, ['CTL=%d' % ctl], '.ctl%d' % ctl, quick=ctl in (1, 9)))
for sy in (10, 11, 12, 13, 14):
    OBLIGATIONS.append(mk(3, 5, 0, 0, ['SYS=%d' % sy], '.sys%d' % sy, quick=sy in (12, 14)))
for hi, lo in ((1, 0), (3, 5), (127, 127)):
    OBLIGATIONS.append(mk(0, 5, 1, 0, ['DELAYHI=%d' % hi, 'DELAY=%d' % lo], '.delay%d' % (hi * 128 + lo), quick=hi == 3))
