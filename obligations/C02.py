from lib.runner import Ob

LEVEL_NOTE = ('bounded model checking (CBMC) of the real src/wopn/wopn_file.c (#included by C harnesses) and of the real OPN2 note kernels '
              '(LLVM IR route); buffers are exact-size objects so any access outside the given block is a bounds failure')

OBLIGATIONS = []
for n in (0, 1, 10, 11, 12, 13, 14, 76, 77, 78, 79, 80):
    OBLIGATIONS.append(Ob('C02.inst.n%d' % n, 'C02', 'c/wopn_opni.c', entry='harness_load', defines=['N=%d' % n], unwind=90,
                          desc='WOPN_LoadInstFromMem on every %d-byte block: success or a defined error, no access outside the block' % n,
                          bounds='all byte strings of length %d (exact-size array)' % n))
OBLIGATIONS.append(Ob('C02.ins.frame', 'C02', 'c/wopn_ins.c', entry='harness_parse_frame', unwind=72,
                      desc='WOPN_parseInstrument reads only inside an exact-size 65/69-byte block for every version 0..2 / delay flag',
                      bounds='all block contents'))
for v2 in (0, 1):
    for ln, nm in ((None, 'full'), (15, 'short15'), (11, 'short11'), (5, 'short5')):
        d = ['MEL=0', 'PER=0', 'V2=%d' % v2] + (['LEN=%d' % ln] if ln is not None else [])
        OBLIGATIONS.append(Ob('C02.bank.hdr.%s.%s' % ('v2' if v2 else 'v1', nm), 'C02', 'c/wopn_bank.c', entry='harness_load', defines=d, unwind=130,
                              desc='WOPN_LoadBankFromMem on a header-only image (exact-size block, symbolic version code/flags), full or truncated: defined outcome, no over-read',
                              bounds='bank counts 0/0'))

from obligations.common import *
UFN = dict(INIT_UNWIND)
UFN.update({'_ZN4OPN26noteOnEmd': 32, 'sym_timbre': 40, '_ZL5setup': 40})
for tone in (-40000, -40, 35, 140, 300, 13000, 40000):
    OBLIGATIONS.append(Ob('C02.noteOn.t%d' % tone, 'C02', 'ir/c10_noteon.cpp', engine='ir', entry='harness_safe', defines=['TONE=%d' % tone],
                          unwind=20, unwind_funcs=UFN, repo_tus=PLAYER_TUS, ir_opts=player_ir_opts(), backend='kissat', termination=True,
                          tiers=('quick', 'thorough') if tone in (35, 300, 13000) else ('thorough',), timeout={'quick': 900, 'thorough': 2400},
                          desc='OPN2::noteOn with arbitrary timbre at tone %d (every value of the exp enclosure): register indices in range, octave/multiplier search terminates within 32 iterations' % tone,
                          bounds='tone %d; tones between the listed ones share their exp enclosures; finite results above 1e11 are outside the bound' % tone,
                          stubs=PLAYER_STUBS + ['exp(): enclosure stub, +inf above 709.79']))

UFT = dict(INIT_UNWIND)
UFT.update({'_ZL5setup': 40})
for m, nm in ((0, 'generic'), (1, 'native'), (2, 'dmx'), (3, 'apogee'), (4, 'w9x')):
    OBLIGATIONS.append(Ob('C02.touch.' + nm, 'C02', 'ir/c11_touch.cpp', engine='ir', entry='harness_safe', defines=['MODEL=%d' % m],
                          unwind=20, unwind_funcs=UFT, repo_tus=PLAYER_TUS, ir_opts=player_ir_opts(), timeout={'quick': 600, 'thorough': 1800},
                          desc='OPN2::touchNote (%s model) with velocity, channel volume, expression and brightness over the whole uint8 range, any master volume 0..127, modulator scaling on/off: table and register indices in range' % nm,
                          bounds='all uint8 controller values (what opn2_rt_controllerChange and a hostile MIDI file can store)', stubs=PLAYER_STUBS))
