from lib.runner import Ob

LEVEL_NOTE = ('bounded model checking (CBMC 6.11) of the real src/wopn/wopn_file.c, #included by the harness; '
              'libc strncpy/memcpy/memcmp are CBMC built-in models; allocation failure out of scope')

INS_ASSUME = ['instrument names are NUL terminated within 32 bytes and zero padded',
              'inst_flags subset of {IsBlank}; midi_velocity_offset == 0 (reserved)',
              'version 2: blank <=> both delays zero (the format encodes the flag that way)']

OBLIGATIONS = []
for v, d in ((1, 1), (2, 1), (2, 0)):
    tag = 'v%d%s' % (v, '' if d else '.opni')
    OBLIGATIONS.append(Ob('C15.ins.rt.' + tag, 'C15', 'c/wopn_ins.c', entry='harness_rt',
                          defines=['VERSION=%d' % v, 'DELAYS=%d' % d], unwind=34,
                          desc='parse(write(x)) == x for every instrument value; write inside exact-size %d-byte block' % (69 if v == 2 and d else 65),
                          bounds='all field values; one instrument', assumptions=INS_ASSUME))
    OBLIGATIONS.append(Ob('C15.ins.idem.' + tag, 'C15', 'c/wopn_ins.c', entry='harness_idem',
                          defines=['VERSION=%d' % v, 'DELAYS=%d' % d], unwind=70,
                          desc='parse(write(parse(b))) == parse(b) for every byte block b',
                          bounds='all 65/69-byte blocks'))
