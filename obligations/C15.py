from lib.runner import Ob

LEVEL_NOTE = ('bounded model checking (CBMC 6.11) of the real src/wopn/wopn_file.c, #included by the harness; '
              'libc strncpy/memcpy/memcmp are CBMC built-in models; allocation failure out of scope')

INS_ASSUME = ['instrument names are NUL terminated within 32 bytes and zero padded',
              'inst_flags subset of {IsBlank}; midi_velocity_offset == 0 (reserved)',
              'version 2: blank <=> both delays zero (the format encodes the flag that way)']

OBLIGATIONS = []
for v, d in ((1, 1), (2, 1), (2, 0)):
    tag = 'v%d%s' % (v, '' if d else '.opni')
    OBLIGATIONS.append(Ob('C15.ins.rt.' + tag, 'C15', 'c/wopn_ins.c', entry='harness_rt',
                          defines=['VERSION=%d' % v, 'DELAYS=%d' % d], unwind=34,
                          desc='parse(write(x)) == x for every instrument value; write inside exact-size %d-byte block' % (69 if v == 2 and d else 65),
                          bounds='all field values; one instrument', assumptions=INS_ASSUME))
    OBLIGATIONS.append(Ob('C15.ins.idem.' + tag, 'C15', 'c/wopn_ins.c', entry='harness_idem',
                          defines=['VERSION=%d' % v, 'DELAYS=%d' % d], unwind=70,
                          desc='parse(write(parse(b))) == parse(b) for every byte block b',
                          bounds='all 65/69-byte blocks'))

for v in (0, 1, 2):
    OBLIGATIONS.append(Ob('C15.opni.rt.v%d' % v, 'C15', 'c/wopn_opni.c', entry='harness_rt', defines=['VERSION=%d' % v], unwind=34,
                          desc='OPNI: every instrument value saves into exactly the calculated size (exact-size destination) and reloads equal',
                          bounds='all field values, version argument %d' % v, assumptions=INS_ASSUME[:1] + ['OPNI files carry no flags/delays: both are 0 in the value']))
    OBLIGATIONS.append(Ob('C15.opni.small.v%d' % v, 'C15', 'c/wopn_opni.c', entry='harness_small', defines=['VERSION=%d' % v], unwind=34,
                          desc='OPNI: every destination length below the needed size is refused and no byte at/after length is written (symbolic probe)',
                          bounds='all lengths 0..needed-1'))
for n in (77, 78, 79, 80):
    OBLIGATIONS.append(Ob('C15.opni.accept.n%d' % n, 'C15', 'c/wopn_opni.c', entry='harness_accept', defines=['N=%d' % n], unwind=90,
                          desc='OPNI: for every accepted %d-byte string, load(save(load(b), loaded version)) == load(b)' % n,
                          bounds='all byte strings of length %d' % n))

# whole bank files: concrete bank counts; the save/reload of complete banks (2 x 128 instruments) does not finish
# under CBMC (see DESIGN.md), so the file level is claimed for the loader on header-only images and for OPNI files
for v2 in (0, 1):
    OBLIGATIONS.append(Ob('C15.bank.version.%s' % ('v2magic' if v2 else 'v1magic'), 'C15', 'c/wopn_bank.c', entry='harness_load',
                          defines=['MEL=0', 'PER=0', 'V2=%d' % v2], unwind=130,
                          desc='bank loader, header-only image (0+0 banks), symbolic version code and flags: an accepted image has a version the writer reproduces',
                          bounds='bank counts 0/0; version code, LFO/chip flags symbolic'))

WALK = dict(separate_tus=['src/wopn/wopn_file.c'], native=False,
            remove_bodies=['__CPROVER_file_local_wopn_file_c_WOPN_parseInstrument', '__CPROVER_file_local_wopn_file_c_WOPN_writeInstrument'],
            stubs=['WOPN_parseInstrument / WOPN_writeInstrument are cut out of the separately compiled wopn_file.c and replaced by obligation stubs that assert the exact offset and that the block lies inside the given length (the leaves themselves: C15.ins.*)'])
for (m, p, v, tiers) in ((1, 1, 2, ('quick', 'thorough')), (1, 1, 1, ('quick', 'thorough')), (9, 1, 2, ('quick', 'thorough')), (1, 9, 1, ('thorough',)),
                         (2, 2, 2, ('thorough',)), (0, 0, 0, ('quick', 'thorough')), (9, 9, 2, ('thorough',))):
    tag = 'm%dp%d.v%d' % (m, p, v)
    d = ['MEL=%d' % m, 'PER=%d' % p, 'SAVE_VER=%d' % v]
    OBLIGATIONS.append(Ob('C15.save.guard.' + tag, 'C15', 'c/wopn_walk.c', entry='harness_save_guard', defines=d, unwind=130, tiers=tiers,
                          timeout={'quick': 1200, 'thorough': 2400}, cost=2 if m + p > 2 else 1,   # m9p1: 6 min of SAT (minisat; cadical and kissat take as long or longer)
                          desc='WOPN_SaveBankToMem on a forged %d+%d-bank value, every destination length below the needed size: refused, every written block inside the length, no byte at/after length written' % (m, p),
                          bounds='bank counts %d/%d, version %d, all lengths < needed' % (m, p, v), **WALK))
    OBLIGATIONS.append(Ob('C15.save.exact.' + tag, 'C15', 'c/wopn_walk.c', entry='harness_save_exact', defines=d, unwind=130, tiers=tiers,
                          timeout={'quick': 600, 'thorough': 2400},
                          desc='WOPN_SaveBankToMem into exactly the calculated size succeeds, instrument k is written at header+k*size',
                          bounds='bank counts %d/%d, version %d' % (m, p, v), **WALK))
