from lib.runner import Ob
from obligations.common import *

LEVEL_NOTE = ('bounded model checking of the real OPN2::noteOn (LLVM IR route, real player state from opn2_init, TapChip register log); exp() is a '
              'sound enclosure stub that behaves as a monotone function (libm itself is trusted); SMT check of the frequency constants')

UF = dict(INIT_UNWIND)
UF.update({'_ZN4OPN26noteOnEmd': 10, 'sym_timbre': 40, '_ZL5setup': 40})
OBLIGATIONS = []
for fam in ('OPN2', 'OPNA'):
    for tone, tiers in ((35, ('quick', 'thorough')), (87, ('quick', 'thorough') if fam == 'OPN2' else ('thorough',)), (-40, ('quick', 'thorough') if fam == 'OPN2' else ('thorough',)), (1, ('thorough',))):
        d = ['TONE=%d' % tone] + (['FAMILY_OPNA'] if fam == 'OPNA' else [])
        OBLIGATIONS.append(Ob('C10.fnum.%s.t%d' % (fam.lower(), tone), 'C10', 'ir/c10_noteon.cpp', engine='ir', entry='harness_fnum', defines=d,
                              unwind=20, unwind_funcs=UF, repo_tus=PLAYER_TUS, ir_opts=player_ir_opts(), backend='kissat', tiers=tiers,
                              timeout={'quick': 900, 'thorough': 2400},
                              desc='noteOn: written block/F-number = coef*exp(k*tone)/2^block within half an F-number step, lowest block used, multiplier registers untouched, key-on addressed correctly',
                              bounds='tone %d with every value of the exp enclosure around it (many semitones wide), arbitrary timbre bytes, chip channel 4, %s clock' % (tone, fam),
                              assumptions=['frequency inside the native range (coef*exp < 2036.75*128)'], stubs=PLAYER_STUBS + ['exp(): monotone function stub with staircase enclosure']))
    OBLIGATIONS.append(Ob('C10.mono.%s' % fam.lower(), 'C10', 'ir/c10_noteon.cpp', engine='ir', entry='harness_mono',
                          defines=['TONE=60'] + (['FAMILY_OPNA'] if fam == 'OPNA' else []),
                          unwind=20, unwind_funcs=UF, repo_tus=PLAYER_TUS, ir_opts=player_ir_opts(), backend='kissat',
                          tiers=('quick', 'thorough') if fam == 'OPN2' else ('thorough',), timeout={'quick': 900, 'thorough': 2400},
                          desc='two noteOn calls with tone1 <= tone2: programmed frequency non-decreasing (within one F-number step)',
                          bounds='tones 60 / 60.5 with every pair of monotone exp values in the enclosure', stubs=PLAYER_STUBS))
