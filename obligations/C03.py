from lib.runner import Ob
from obligations.common import *

LEVEL_NOTE = ('bounded model checking of the real C API entry points on the real initial state (opn2_init), translated from LLVM IR; '
              'memory safety = CBMC pointer/bounds checks on every access of the translated code, termination = unwinding assertions, '
              'no exception/abort = __cxa_throw/abort are assertion failures')

OBLIGATIONS = []
NAMES = {3: 'channelAfterTouch', 5: 'patchChange', 8: 'bankChangeLSB', 9: 'bankChangeMSB', 10: 'bankChange'}
for sel, nm in sorted(NAMES.items()):
    OBLIGATIONS.append(Ob('C03.rt.guard.' + nm, 'C03', 'ir/c03_rt.cpp', engine='ir', entry='harness_rt',
                          defines=['STEPS=1', 'CHAN_SYMBOLIC', 'SEL_LO=%d' % sel, 'SEL_HI=%d' % sel],
                          unwind=20, unwind_funcs=INIT_UNWIND, repo_tus=PLAYER_TUS, ir_opts=player_ir_opts(),
                          timeout={'quick': 600, 'thorough': 1800},
                          desc='opn2_rt_%s with every uint8 channel and argument value: no out-of-bounds access' % nm,
                          bounds='one call after opn2_init; all 256 channel values, all argument values', stubs=PLAYER_STUBS))
