from lib.runner import Ob
from obligations.common import *

LEVEL_NOTE = ('bounded model checking of the real C API entry points on the real initial state (opn2_init), translated from LLVM IR; '
              'memory safety = CBMC pointer/bounds checks on every access of the translated code, termination = unwinding assertions, '
              'no exception/abort = __cxa_throw/abort are assertion failures')

RT_UNWIND = dict(INIT_UNWIND)
RT_UNWIND.update({'pin_instrument': 40, 'realTime_panic': 130, '_ZN11OPNMIDIplay5panic': 130, '_ZN4OPN26noteOnEmd': 48,
                  'realTime_NoteAfterTouch': 130})
RT_ASSUME = ['banks are forged map slots: melodic bank 0 and percussion bank 0 with pinned entries (programs 0,5 / keys 35,60): concrete '
             'single-voice timbres, symbolic blank flag, drum key, velocity offset, key-on/off times',
             'note-on keys and program numbers inside k-step sequences are enumerated over the pinned entries; channels over {0, 9, 16, 255}']

OBLIGATIONS = []
NAMES = {3: 'channelAfterTouch', 5: 'patchChange', 8: 'bankChangeLSB', 9: 'bankChangeMSB', 10: 'bankChange'}
for sel, nm in sorted(NAMES.items()):
    OBLIGATIONS.append(Ob('C03.rt.guard.' + nm, 'C03', 'ir/c03_rt.cpp', engine='ir', entry='harness_rt',
                          defines=['STEPS=1', 'CHAN_SYMBOLIC', 'SEL_LO=%d' % sel, 'SEL_HI=%d' % sel],
                          unwind=20, unwind_funcs=RT_UNWIND, unwindset={'memcmp.0': 40}, repo_tus=PLAYER_TUS, ir_opts=player_ir_opts(),
                          timeout={'quick': 600, 'thorough': 1800},
                          desc='opn2_rt_%s with every uint8 channel and argument value: no out-of-bounds access' % nm,
                          bounds='one call after opn2_init; all 256 channel values, all argument values', stubs=PLAYER_STUBS))

OBLIGATIONS.append(Ob('C03.rt.panic', 'C03', 'ir/c03_rt.cpp', engine='ir', entry='harness_rt', defines=['STEPS=1', 'SEL_LO=11', 'SEL_HI=11'], tiers=('thorough',),
                      unwind=20, unwind_funcs=RT_UNWIND, unwindset={'memcmp.0': 40}, repo_tus=PLAYER_TUS, ir_opts=player_ir_opts(),
                      timeout={'quick': 900, 'thorough': 3000}, termination=True,
                      desc='opn2_panic after opn2_init: memory-safe, terminates', bounds='one call', assumptions=RT_ASSUME, stubs=PLAYER_STUBS))
for n in (0, 1, 2, 3, 4, 5):
    OBLIGATIONS.append(Ob('C03.sysex.len%d' % n, 'C03', 'ir/c19_sysex.cpp', engine='ir', entry='harness_sysex',
                          defines=['LEN=%d' % n, 'CH=9'], unwind=20, unwind_funcs=INIT_UNWIND, repo_tus=PLAYER_TUS, ir_opts=player_ir_opts(),
                          timeout={'quick': 600, 'thorough': 1800},
                          desc='opn2_setDeviceIdentifier(any id 0..15) then opn2_rt_systemExclusive with every %d-byte message in an exact-size array: no access outside the message' % n,
                          bounds='message length %d; longer messages are covered by C19' % n, stubs=PLAYER_STUBS))
for ch in (0, 9, 16, 255):
    OBLIGATIONS.append(Ob('C03.rt.k1.ch%d' % ch, 'C03', 'ir/c03_rt.cpp', engine='ir', entry='harness_rt', defines=['STEPS=1', 'NO_PANIC', 'CH_ONLY=%d' % ch],
                          unwind=20, unwind_funcs=RT_UNWIND, unwindset={'memcmp.0': 40}, repo_tus=PLAYER_TUS, ir_opts=player_ir_opts(),
                          timeout={'quick': 800, 'thorough': 3000}, termination=True,
                          desc='one real-time API call (12 entry points, symbolic arguments) on channel %d after opn2_init: memory-safe, no throw/abort, all loops terminate' % ch,
                          bounds='1 call; channel %d; keys/programs of the pinned instruments; all other argument bytes symbolic; 2 chips' % ch,
                          assumptions=RT_ASSUME, stubs=PLAYER_STUBS))
for k, tiers in ((2, ('thorough',)), (3, ('thorough',))):
    OBLIGATIONS.append(Ob('C03.rt.k%d' % k, 'C03', 'ir/c03_rt.cpp', engine='ir', entry='harness_rt', defines=['STEPS=%d' % k, 'NO_PANIC'],
                          unwind=20, unwind_funcs=RT_UNWIND, unwindset={'memcmp.0': 40}, repo_tus=PLAYER_TUS, ir_opts=player_ir_opts(),
                          tiers=tiers, timeout={'quick': 900, 'thorough': 3000}, termination=True,
                          desc='every sequence of %d real-time API calls (12 entry points, symbolic arguments; opn2_panic separately) after opn2_init: memory-safe, no throw/abort, all loops terminate within the unwinding bounds' % k,
                          bounds='%d calls; channels {0,9,16,255}; keys/programs of the pinned instruments; all other argument bytes symbolic; 2 chips' % k,
                          assumptions=RT_ASSUME, stubs=PLAYER_STUBS))
