from lib.runner import Ob
from obligations.common import *

LEVEL_NOTE = ('bounded model checking of the real OPN2::touchNote (LLVM IR route, real player state, TapChip register log), one volume model and '
              'one master volume value per query; carrier mask reference written from the YM2612 algorithm chart')

UF = dict(INIT_UNWIND)
UF.update({'_ZL5setup': 40})
MODELS = {0: 'generic', 1: 'native', 2: 'dmx', 3: 'apogee', 4: 'w9x'}
OBLIGATIONS = []
for m, nm in sorted(MODELS.items()):
    for master in (127, 64, 1, 0):
        OBLIGATIONS.append(Ob('C11.range.%s.mv%d' % (nm, master), 'C11', 'ir/c11_touch.cpp', engine='ir', entry='harness_range',
                              defines=['MODEL=%d' % m, 'MASTER=%d' % master], unwind=20, unwind_funcs=UF, repo_tus=PLAYER_TUS, ir_opts=player_ir_opts(),
                              tiers=('quick', 'thorough') if master in (127, 0) else ('thorough',), timeout={'quick': 600, 'thorough': 1800},
                              desc='touchNote (%s model, master %d): every TL write within 0..127; zero volume/expression/master silences the carriers; modulators written back unchanged' % (nm, master),
                              bounds='velocity, channel volume, expression all of 0..127; 8 algorithms; arbitrary TL bytes <= 127; brightness 127, no modulator scaling',
                              stubs=PLAYER_STUBS + ['log(): monotone enclosure stub (Generic model)']))
    if m == 0:
        continue   # Generic-model monotonicity needs floating-point reasoning through log(): no back end finishes (DESIGN.md)
    for ctl, cn in ((0, 'velocity'), (1, 'volume'), (2, 'expression')):
        for master in (127, 64, 1):
            OBLIGATIONS.append(Ob('C11.mono.%s.%s.mv%d' % (nm, cn, master), 'C11', 'ir/c11_touch.cpp', engine='ir', entry='harness_mono',
                                  defines=['MODEL=%d' % m, 'MASTER=%d' % master, 'CTL=%d' % ctl], unwind=20, unwind_funcs=UF, repo_tus=PLAYER_TUS,
                                  ir_opts=player_ir_opts(), backend='kissat',
                                  tiers=('quick', 'thorough') if master == 127 else ('thorough',), timeout={'quick': 900, 'thorough': 2400},
                                  desc='touchNote (%s model, master %d): raising %s with the other controls fixed never raises a carrier TL (2-safety, two calls)' % (nm, master, cn),
                                  bounds='all triples in 0..127^3 and every larger value of the raised control; 8 algorithms; arbitrary TL bytes', stubs=PLAYER_STUBS))
