from lib.runner import Ob
from obligations.common import *

LEVEL_NOTE = ('bounded model checking of the real setters/getters/reset paths of the C API on the real player (LLVM IR route, TapChip stubs); '
              'OPNMIDIplay::setErrorString is replaced by a counting stub (its std::string assignment is costly), so "non-empty error text" is checked as "setErrorString was called"')

UF = dict(INIT_UNWIND)
UF.update({'realTime_panic': 2100, '_ZN11OPNMIDIplay5panic': 2100, 'bad_chips': 4})
ST = PLAYER_STUBS + ['OPNMIDIplay::setErrorString body replaced by a call counter']


def ob(name, entry, desc, bounds, defines=(), tiers=('quick', 'thorough'), shift=False):
    io = player_ir_opts(stub_funcs='setErrorString')
    if shift:
        io['shift_checks'] = True
    return Ob('C18.' + name, 'C18', 'ir/c18_settings.cpp', engine='ir', entry=entry, defines=list(defines), unwind=20, unwind_funcs=UF,
              unwindset={'memcmp.0': 40}, repo_tus=PLAYER_TUS, ir_opts=io, tiers=tiers, timeout={'quick': 1500, 'thorough': 3000},
              desc=desc, bounds=bounds, stubs=ST)


OBLIGATIONS = [
    ob('numchips.reject', 'harness_numchips', 'opn2_setNumChips with 0, -1, 101, -5, 1000, INT_MIN, INT_MAX: refused, reported chip counts and chips untouched, error recorded',
       'the seven boundary/invalid values of the property text, fresh instance'),
    ob('numchips.accept', 'harness_numchips_ok', 'opn2_setNumChips(1|2|3): accepted, reported back, survives opn2_reset', 'chip counts 1..3', tiers=('thorough',)),
    ob('emulator', 'harness_emulator', 'opn2_switchEmulator with 12 unavailable / out-of-range ids (-1, compiled-out cores, 31, 32+k aliases, 64, 1000, INT_MIN/MAX): refused, emulator and chips untouched, error recorded',
       'ids enumerated on separate call sites; only MAME and the VGM dumper are compiled into the verification build; out-of-range shift amounts are masked as on x86'),
    ob('devid', 'harness_devid', 'opn2_setDeviceIdentifier with every unsigned value: 0..15 stored, others refused without effect', 'all 2^32 ids'),
    ob('devid.reset', 'harness_devid', 'the device id (accepted or not) is unchanged by a following opn2_reset', 'all 2^32 ids', defines=['WITH_RESET']),
]
# one follow-up call per solver run: the five (three) follow-up calls in one run cost 6-13 min (550 k symex steps: every call site carries
# its own copy of partialReset -> realTime_panic = 16 x 128 noteOff), the single calls run in parallel
OVR_FOLLOW = ['opn2_reset', 'setup re-application (applySetup, the file-load path)', 'opn2_setRunAtPcmRate(0|1)']
HOOK_FOLLOW = [('reset', 'opn2_reset'), ('emulator', 'opn2_switchEmulator'), ('numchips', 'opn2_setNumChips(1)'), ('pcmrate', 'opn2_setRunAtPcmRate(1)'), ('chiptype', 'opn2_setChipType(1)')]
for k, nm in enumerate(('reset', 'applysetup', 'pcmrate')):
    OBLIGATIONS.append(ob('overrides.' + nm, 'harness_overrides', 'LFO enable/frequency and chip-type overrides (-1 = bank default) are reported by the getters, reach the chip LFO register, and stay in force across ' + OVR_FOLLOW[k],
                          'all override values (-1,0,1 / -1..7 / -1,0,1) x arbitrary bank defaults; follow-up call: ' + OVR_FOLLOW[k], defines=['FOLLOW=%d' % k]))
for k, (nm, call) in enumerate(HOOK_FOLLOW):
    OBLIGATIONS.append(ob('hooks.' + nm, 'harness_hooks', 'loop-start/loop-end callbacks registered through the API are still the ones installed in the sequencer interface after ' + call,
                          'follow-up call: ' + call, defines=['FOLLOW=%d' % k]))
