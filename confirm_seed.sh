#!/bin/bash
# usage: confirm_seed.sh <ID> <worktree> <seeddir>  -- confirms a seeded change in a scratch worktree
ID=$1; WT=$2; SD=$3
cd $WT || exit 9
git checkout -q -- . ; git apply $SD/patch.diff || { echo "$ID: patch does not apply"; exit 9; }
[ -d _build ] || cmake -G Ninja -S $WT -B $WT/_build -DCMAKE_BUILD_TYPE=RelWithDebInfo -DWITH_UNIT_TESTS=ON -DUSE_VGM_FILE_DUMPER=ON >/dev/null
cmake --build _build >/dev/null 2>&1 || { echo "$ID: build failed with change"; git checkout -q -- .; exit 9; }
T=$(ctest --test-dir _build 2>&1 | grep "tests passed")
DEMO=$(ls $SD/demo.c $SD/demo.cpp 2>/dev/null | head -1)
CC=gcc; XF=""; case $DEMO in *.cpp) CC=g++; XF="-fno-access-control -DENABLE_END_SILENCE_SKIPPING -DLIBOPNMIDI_VISIBILITY -DOPNMIDI_MIDI2VGM";; esac
$CC -O1 -g $XF $DEMO $WT/_build/libOPNMIDI.a -I$WT/include -I$WT/src -lstdc++ -lm -o /tmp/demo-$ID-mut 2>/dev/null
timeout 20 /tmp/demo-$ID-mut >/dev/null 2>&1; RM=$?
git checkout -q -- . ; cmake --build _build >/dev/null 2>&1
$CC -O1 -g $XF $DEMO $WT/_build/libOPNMIDI.a -I$WT/include -I$WT/src -lstdc++ -lm -o /tmp/demo-$ID-orig 2>/dev/null
timeout 20 /tmp/demo-$ID-orig >/dev/null 2>&1; RO=$?
echo "$ID: ctest-with-change='$T' demo-with-change-exit=$RM demo-original-exit=$RO"
rm -f /tmp/demo-$ID-mut /tmp/demo-$ID-orig
