#!/usr/bin/env python3
"""Command line of the verification machinery.

  vf.py setup                          check the tool chain, byte-compile
  vf.py check <Cxx> [--tier quick|thorough] [--only <regex>] [--keep]
  vf.py replay <replay.json>           re-run a recorded counterexample natively
  vf.py list [<Cxx>]                   list obligations
"""
import sys, os, re, json, importlib, argparse, shutil, subprocess, time

VERIF = os.path.dirname(os.path.abspath(__file__))
sys.path.insert(0, VERIF)
from lib import runner


def load_obligations(prop):
    mod = importlib.import_module('obligations.' + prop)
    obs = list(mod.OBLIGATIONS)
    if os.environ.get('VERIF_INCLUDE_UNREGISTERED'):
        # obligations that a harness can express but that are not part of any tier (no verdict yet): --tier manual
        obs += list(getattr(mod, 'UNREGISTERED', []))
    return obs, getattr(mod, 'LEVEL_NOTE', '')


def cmd_setup(a):
    need = ['cbmc', 'goto-cc', 'goto-instrument', 'clang++-14', 'llvm-link-14', 'opt-14', 'gcc', 'g++', 'z3', 'cvc5']
    missing = [t for t in need if not shutil.which(t)]
    if missing:
        print('missing tools: ' + ' '.join(missing))
        return 1
    import compileall
    ok = compileall.compile_dir(os.path.join(VERIF, 'lib'), quiet=1) and \
        compileall.compile_dir(os.path.join(VERIF, 'obligations'), quiet=1)
    for d in ('evidence', 'replays'):
        os.makedirs(os.path.join(VERIF, d), exist_ok=True)
    shim = os.path.join(VERIF, 'lib', 'shim', 'cvc5')
    if os.path.exists(shim):
        os.chmod(shim, 0o755)
    v = subprocess.run(['cbmc', '--version'], capture_output=True, text=True).stdout.strip()
    print('setup ok: cbmc %s' % v)
    return 0 if ok else 1


def cmd_check(a):
    tier = a.tier or os.environ.get('VERIF_TIER') or 'quick'
    seed = int(os.environ.get('VERIF_SEED', '0') or 0)
    obs, note = load_obligations(a.prop)
    if a.only:
        obs = [o for o in obs if re.search(a.only, o.name)]
    return runner.run_property(a.prop, obs, tier, seed, note, keep=a.keep)


def cmd_list(a):
    props = [a.prop] if a.prop else sorted(f[:-3] for f in os.listdir(os.path.join(VERIF, 'obligations'))
                                           if re.match(r'C\d+\.py$', f))
    for p in props:
        obs, _ = load_obligations(p)
        for o in obs:
            print('%-4s %-36s %-4s %-18s %s' % (p, o.name, o.engine, ','.join(o.tiers), o.desc[:90]))
    return 0


def cmd_replay(a):
    d = json.load(open(a.path))
    obs, _ = load_obligations(d['property'])
    ob = [o for o in obs if o.name == d['obligation']]
    if not ob:
        print('unknown obligation ' + d['obligation'])
        return 2
    R = runner.Runner(d['property'], d.get('tier', 'quick'))
    try:
        verdict, detail = R.native_replay(ob[0], a.path)
    finally:
        R.cleanup()
    print('failed check : %s' % d['failed_property']['desc'])
    print('site         : %s:%s  %s' % (d['failed_property']['function'], d['failed_property']['line'],
                                       d['failed_property']['text']))
    print('nondet values: %s' % ' '.join('%s=%d' % (k, v) for k, v in d['nondet_values'][:80]))
    print('native replay: %s' % verdict)
    print(detail)
    return 1 if verdict == 'reproduced' else 0


def main():
    ap = argparse.ArgumentParser()
    sp = ap.add_subparsers(dest='cmd')
    sp.add_parser('setup')
    c = sp.add_parser('check')
    c.add_argument('prop')
    c.add_argument('--tier', default=None)
    c.add_argument('--only', default=None)
    c.add_argument('--keep', action='store_true')
    l = sp.add_parser('list')
    l.add_argument('prop', nargs='?')
    r = sp.add_parser('replay')
    r.add_argument('path')
    a = ap.parse_args()
    if a.cmd == 'setup':
        return cmd_setup(a)
    if a.cmd == 'check':
        return cmd_check(a)
    if a.cmd == 'list':
        return cmd_list(a)
    if a.cmd == 'replay':
        return cmd_replay(a)
    ap.print_help()
    return 2


if __name__ == '__main__':
    sys.exit(main())
