#!/bin/bash
# usage: seedtest.sh <patch.diff> <property> [only-regex] [tier]  -- applies a seeded change to /repo, runs the check, reverts
set -u
P=$1; PROP=$2; ONLY=${3:-.}; TIER=${4:-quick}
cd /repo && git diff --quiet || { echo "/repo not clean"; exit 9; }
git -C /repo apply "$P" || { echo "patch does not apply"; exit 9; }
cd /verif && timeout 3000 python3 vf.py check $PROP --tier $TIER --only "$ONLY" 2>&1 | grep -v "^\[.*PASS" | tail -12
echo "exit=${PIPESTATUS[0]}"
git -C /repo checkout -- .
